#!/usr/bin/env python3
"""Confirm a seeded change (delivered by an independent sub-agent under /tmp/seed/<ID>/out/m<k>/) in its scratch
worktree, store it under /verif/seeded/<ID>-m<k>/, and run the registered check(s) against it:
   seedtest.py confirm <ID> <k>      -> (a) suite passes with the patch, (b) demo fails with it, (c) demo passes without it
   seedtest.py detect <name> [props] -> git apply in /repo, ./check <prop> quick, git checkout -- . ; records the outcome in meta.json"""
import json, os, shutil, subprocess, sys, time

VERIF = os.path.dirname(os.path.dirname(os.path.abspath(__file__)))
SEEDED = os.path.join(VERIF, "seeded")
# regression sweeps run from a snapshot (vp run --with-repo) against a snapshot of the repository: SEED_REPO names it and the
# snapshot's harness is pointed at it.  Registered checks and recorded detections always use /repo itself.
REPO = os.environ.get("SEED_REPO", "/repo")


def sh(cmd, cwd=None, timeout=3600):
    p = subprocess.run(cmd, cwd=cwd, shell=True, stdout=subprocess.PIPE, stderr=subprocess.STDOUT, text=True, timeout=timeout)
    return p.returncode, p.stdout


def confirm(pid, k, root="/tmp/seed", tag="m"):
    wt = "%s/%s" % (root, pid)
    src = os.path.join(wt, "out", "m%s" % k)
    meta = json.load(open(os.path.join(src, "meta.json")))
    crate = meta.get("demo_crate", "rtmp")
    pkg = "rml_rtmp" if crate == "rtmp" else "rml_amf0"
    patch = os.path.join(src, "patch.diff")
    demo = os.path.join(src, "demo.rs")
    tdir = os.path.join(wt, crate, "tests")
    res = {}
    sh("git checkout -- rtmp/src amf0/src", cwd=wt)
    rc, out = sh("git apply --check %s" % patch, cwd=wt)
    if rc != 0:
        return {"ok": False, "why": "patch does not apply: " + out[-300:]}
    os.makedirs(tdir, exist_ok=True)
    try:
        sh("git apply %s" % patch, cwd=wt)
        rc, out = sh("cargo test --workspace --offline 2>&1 | grep -E '^test result|^error' ", cwd=wt)
        passed = sum(int(l.split()[3]) for l in out.splitlines() if l.startswith("test result"))
        failed = sum(int(l.split()[5]) for l in out.splitlines() if l.startswith("test result"))
        res["suite_with_patch"] = "%d passed, %d failed" % (passed, failed)
        suite_ok = failed == 0 and passed >= 186 and "error" not in out
        shutil.copy(demo, os.path.join(tdir, "seed_demo.rs"))
        rc1, out1 = sh("cargo test --offline -p %s --test seed_demo 2>&1" % pkg, cwd=wt)
        res["demo_with_patch"] = "FAILS" if rc1 != 0 or "FAILED" in out1 else "passes"
        sh("git checkout -- rtmp/src amf0/src", cwd=wt)
        rc2, out2 = sh("cargo test --offline -p %s --test seed_demo 2>&1" % pkg, cwd=wt)
        res["demo_without_patch"] = "passes" if rc2 == 0 and "test result: ok" in out2 else "FAILS"
        ok = suite_ok and res["demo_with_patch"] == "FAILS" and res["demo_without_patch"] == "passes"
    finally:
        sh("git checkout -- rtmp/src amf0/src", cwd=wt)
        try:
            os.remove(os.path.join(tdir, "seed_demo.rs"))
            if not os.listdir(tdir):
                os.rmdir(tdir)
        except OSError:
            pass
    res["ok"] = ok
    if ok:
        name = "%s-%s%s" % (pid, tag, k)
        dst = os.path.join(SEEDED, name)
        os.makedirs(dst, exist_ok=True)
        shutil.copy(patch, os.path.join(dst, "patch.diff"))
        shutil.copy(demo, os.path.join(dst, "demo.rs"))
        meta2 = {"property": pid, "summary": meta.get("summary"), "needs": meta.get("needs"), "demo_crate": crate,
                 "origin": "independent sub-agent given only the property text and a scratch worktree",
                 "confirmed": res,
                 "confirm_commands": ["git apply patch.diff (scratch worktree %s)" % wt, "cargo test --workspace --offline",
                                      "cargo test --offline -p %s --test seed_demo (with and without the patch)" % pkg]}
        json.dump(meta2, open(os.path.join(dst, "meta.json"), "w"), indent=1)
    return res


def detect(name, props=None):
    dst = os.path.join(SEEDED, name)
    meta = json.load(open(os.path.join(dst, "meta.json")))
    props = props or [meta["property"]]
    rc, out = sh("git status --porcelain", cwd=REPO)
    if out.strip():
        return {"error": "%s not clean" % REPO}
    results = meta.get("detection", {})
    try:
        rc, out = sh("git apply %s" % os.path.join(dst, "patch.diff"), cwd=REPO)
        if rc != 0:
            return {"error": "apply failed " + out[-200:]}
        for p in props:
            t0 = time.time()
            rc, out = sh("./check %s quick" % p, cwd=VERIF, timeout=3000)
            viol = [l for l in out.splitlines() if l.startswith("VIOLATION")]
            reasons = [l.strip() for l in out.splitlines() if l.strip().startswith("reason:")]
            results[p] = {"exit": rc, "detected": rc == 1 and bool(viol), "first_reason": reasons[0] if reasons else "",
                          "wall_s": round(time.time() - t0), "tool_error": [l for l in out.splitlines() if l.startswith("TOOL-ERROR")][:1]}
    finally:
        sh("git checkout -- .", cwd=REPO)
    if REPO != "/repo":
        return results
    meta["detection"] = results
    meta["ran"] = meta.get("ran", []) + ["git -C /repo apply seeded/%s/patch.diff; ./check %s quick; git -C /repo checkout -- ." % (name, " ".join(props))]
    json.dump(meta, open(os.path.join(dst, "meta.json"), "w"), indent=1)
    return results


def sweep(names=None):
    """re-run every stored seed against the check(s) recorded as catching it; prints one line per seed and a summary"""
    if REPO != "/repo":
        ct = os.path.join(VERIF, "harness", "Cargo.toml")
        t = open(ct).read().replace('"/repo/', '"%s/' % REPO)
        open(ct, "w").write(t)
    names = names or sorted(os.listdir(SEEDED))
    missed = []
    for n in names:
        meta = json.load(open(os.path.join(SEEDED, n, "meta.json")))
        det = meta.get("detection", {})
        props = [p for p, r in det.items() if r.get("detected")] or [meta["property"]]
        r = detect(n, props[:1])
        ok = any(x.get("detected") for x in r.values()) if "error" not in r else False
        print("%s %s %s" % (n, "caught" if ok else "MISSED", json.dumps(r)[:300]), flush=True)
        if not ok:
            missed.append(n)
    print("SWEEP %d seeds, %d missed: %s" % (len(names), len(missed), " ".join(missed)), flush=True)


if __name__ == "__main__":
    if sys.argv[1] == "sweep":
        sweep(sys.argv[2:] or None)
    elif sys.argv[1] == "confirm":
        print(json.dumps(confirm(*sys.argv[2:])))
    elif sys.argv[1] == "detect":
        print(json.dumps(detect(sys.argv[2], sys.argv[3:] or None)))
