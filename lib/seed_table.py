#!/usr/bin/env python3
"""Regenerates appendix C of DESIGN.md (which checks catch which seeded changes) from seeded/*/meta.json."""
import json, os, glob
VERIF = os.path.dirname(os.path.dirname(os.path.abspath(__file__)))
rows = []
for d in sorted(glob.glob(os.path.join(VERIF, "seeded", "*"))):
    mp = os.path.join(d, "meta.json")
    if not os.path.exists(mp):
        continue
    m = json.load(open(mp))
    det = m.get("detection", {})
    caught = [p for p, r in det.items() if r.get("detected")]
    missed = [p for p, r in det.items() if not r.get("detected")]
    reason = ""
    for p in caught:
        reason = det[p].get("first_reason", "").replace("reason: ", "")
        break
    reason = reason.split(" (line")[0]
    hist = m.get("history")
    if hist:
        reason = "(first run: missed; " + hist["strengthening"][:90] + ") " + reason
    rows.append((os.path.basename(d), (m.get("summary") or "").replace("|", "/")[:150], (m.get("needs") or "").replace("|", "/")[:150],
                 ", ".join(caught) or "-", ", ".join(missed) or "-", reason.replace("|", "/")[:240]))
out = ["## Appendix C - which checks catch which seeded changes", "",
       "Every change below was produced by an independent sub-agent that saw only the property text and a scratch worktree,",
       "was confirmed by `lib/seedtest.py confirm` (suite green with the patch, demonstration fails with it and passes without),",
       "and was then run against the registered quick checks by `lib/seedtest.py detect` (`git -C /repo apply`, `./check <ID> quick`,",
       "`git -C /repo checkout -- .`).  Details (commands, verdict) are in `/verif/seeded/<name>/meta.json`.", "",
       "| seeded change | what was changed | needs | caught by | run, not caught | first verdict |", "|---|---|---|---|---|---|"]
for r in rows:
    out.append("| %s | %s | %s | %s | %s | %s |" % r)
n = len(rows)
c = len([r for r in rows if r[3] != "-"])
first_missed = len([r for r in rows if r[5].startswith("(first run: missed")])
out += ["", "%d seeded changes, %d caught by at least one registered quick check; %d of them were missed on the first run and are caught since the generators / clauses were strengthened as noted (the specifications themselves needed no change except the independent evaluation of the C04 clause)." % (n, c, first_missed), ""]
text = "\n".join(out)
p = os.path.join(VERIF, "DESIGN.md")
s = open(p).read()
a = "<!-- APPENDIX-C-BEGIN -->"
b = "<!-- APPENDIX-C-END -->"
if a in s:
    s = s[:s.index(a) + len(a)] + "\n" + text + "\n" + s[s.index(b):]
else:
    s = s.rstrip("\n") + "\n\n" + a + "\n" + text + "\n" + b + "\n"
open(p, "w").write(s)
print(n, "rows,", c, "caught")
