#!/usr/bin/env python3
"""S2: turn the EDGE lines printed by Gen_Server / Gen_Client (TLC) into a set of input paths from the initial
state that covers every transition of the small model.   gen_skeletons.py <tlc_output> <paths.json> [max_len]"""
import json, sys, collections


def parse(path):
    edges = []
    with open(path) as f:
        for line in f:
            if line.startswith('"EDGE '):
                body = line.strip()[6:-1].replace('\\"', '"').replace('\\\\', '\\')
                e = json.loads(body)
                edges.append((json.dumps(e["s"], sort_keys=True), e["i"], json.dumps(e["t"], sort_keys=True)))
    return edges


def cover(edges, max_len=40):
    """greedy transition cover: walk from the initial state, always taking an uncovered out-edge of the current state if
    there is one (most are self loops), otherwise moving along a shortest route to the nearest state that has one."""
    out = collections.defaultdict(dict)           # node -> {input key: (input, target)}
    for u, i, v in edges:
        k = json.dumps(i, sort_keys=True)
        out[u].setdefault(k, (i, v))
    init = edges[0][0]                            # TLC's first EDGE lines leave the initial state
    unc = {u: list(d.values()) for u, d in out.items()}     # uncovered out-edges per node
    total = sum(len(x) for x in unc.values())
    succ = {}                                     # node -> {successor: input}, distinct successors only
    for u, d in out.items():
        m = {}
        for (i, v) in d.values():
            if v != u and v not in m:
                m[v] = i
        succ[u] = m
    left = total
    paths = []
    while left > 0:
        cur, path = init, []
        progressed = False
        while len(path) < max_len:
            if unc.get(cur):
                i, v = unc[cur].pop()
                left -= 1
                path.append(i)
                cur = v
                progressed = True
                continue
            # nearest node with an uncovered out-edge
            prev = {cur: None}
            q = collections.deque([cur])
            found = None
            while q:
                n = q.popleft()
                if unc.get(n):
                    found = n
                    break
                for v, i in succ.get(n, {}).items():
                    if v not in prev:
                        prev[v] = (n, i)
                        q.append(v)
            if found is None:
                break
            route = []
            n = found
            while prev[n] is not None:
                pn, i = prev[n]
                route.append(i)
                n = pn
            route.reverse()
            if path and len(path) + len(route) + 1 > max_len:
                break
            path += route
            cur = found
        if not progressed:
            break
        paths.append(path)
    return paths, total, len(out)


if __name__ == "__main__":
    edges = parse(sys.argv[1])
    max_len = int(sys.argv[3]) if len(sys.argv) > 3 else 40
    paths, total, nodes = cover(edges, max_len)
    json.dump({"paths": paths, "transitions": total, "states": nodes}, open(sys.argv[2], "w"))
    print(json.dumps({"edges_printed": len(edges), "transitions": total, "states": nodes, "paths": len(paths),
                      "steps": sum(len(p) for p in paths)}))
