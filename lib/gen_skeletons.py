#!/usr/bin/env python3
"""S2: turn the EDGE lines printed by Gen_Server / Gen_Client (TLC) into a set of input paths from the initial
state that covers every transition of the small model.   gen_skeletons.py <tlc_output> <paths.json> [max_len]"""
import json, sys, collections


def parse(path):
    edges = []
    with open(path) as f:
        for line in f:
            if line.startswith('"EDGE '):
                body = line.strip()[6:-1].replace('\\"', '"').replace('\\\\', '\\')
                e = json.loads(body)
                edges.append((json.dumps(e["s"], sort_keys=True), e["i"], json.dumps(e["t"], sort_keys=True)))
    return edges


def cover(edges, max_len=40):
    out = collections.defaultdict(list)          # node -> [(input, key, target)]
    for u, i, v in edges:
        k = json.dumps(i, sort_keys=True)
        if not any(x[1] == k for x in out[u]):
            out[u].append((i, k, v))
    targets = set(v for _, _, v in edges)
    inits = [u for u in out if u not in targets]
    # the initial state may have self loops only from later states; take the source of the first edge otherwise
    init = inits[0] if inits else edges[0][0]
    # TLC's first EDGE lines come from the initial state
    init = edges[0][0]
    uncovered = set((u, k) for u in out for (_, k, _) in out[u])
    total = len(uncovered)
    paths = []
    while uncovered:
        cur, path = init, []
        progressed = False
        while len(path) < max_len:
            # nearest node (BFS) with an uncovered out-edge
            prev = {cur: None}
            q = collections.deque([cur])
            found = None
            while q:
                n = q.popleft()
                if any((n, k) in uncovered for (_, k, _) in out[n]):
                    found = n
                    break
                for (i, k, v) in out[n]:
                    if v not in prev:
                        prev[v] = (n, i)
                        q.append(v)
            if found is None:
                break
            route = []
            n = found
            while prev[n] is not None:
                p, i = prev[n]
                route.append(i)
                n = p
            route.reverse()
            if len(path) + len(route) + 1 > max_len and path:
                break
            path += route
            cur = found
            for (i, k, v) in out[cur]:
                if (cur, k) in uncovered:
                    uncovered.discard((cur, k))
                    path.append(i)
                    cur = v
                    progressed = True
                    break
        if not progressed:
            break
        paths.append(path)
    return paths, total, len(out)


if __name__ == "__main__":
    edges = parse(sys.argv[1])
    max_len = int(sys.argv[3]) if len(sys.argv) > 3 else 40
    paths, total, nodes = cover(edges, max_len)
    json.dump({"paths": paths, "transitions": total, "states": nodes}, open(sys.argv[2], "w"))
    print(json.dumps({"edges_printed": len(edges), "transitions": total, "states": nodes, "paths": len(paths),
                      "steps": sum(len(p) for p in paths)}))
