"""Common plumbing of the /verif checks: build the harness from /repo's working tree, run TLC
(design-level model checking and trace validation), collect verdicts, match them against the
committed known-findings file, write evidence and replay files.

Exit-code contract (see MANIFEST.json): 0 = held on everything explored, 1 = VIOLATION line printed,
2 = the tooling failed (TLC/cargo error, timeout, vacuous run) - never a verdict about the code."""
import hashlib
import json
import os
import re
import shutil
import subprocess
import sys
import time
from concurrent.futures import ThreadPoolExecutor

VERIF = os.path.dirname(os.path.dirname(os.path.abspath(__file__)))
SPEC = os.path.join(VERIF, "spec")
HARN = os.path.join(VERIF, "harness")
WORK = os.path.join(VERIF, "work")
EVID = os.path.join(VERIF, "evidence")
REPLAYS = os.path.join(VERIF, "replays")
BIN = os.path.join(HARN, "target", "release", "vharness")
KNOWN = os.path.join(VERIF, "KNOWN_FINDINGS.json")

TLC_JAR = "/opt/veriftools/tla/tla2tools.jar:/opt/veriftools/tla/CommunityModules-deps.jar"


class ToolError(Exception):
    pass


def log(*a):
    print(*a, file=sys.stderr, flush=True)


def seed():
    try:
        return int(os.environ.get("VERIF_SEED", "1"))
    except ValueError:
        return 1


def workdir(name):
    d = os.path.join(WORK, name)
    shutil.rmtree(d, ignore_errors=True)
    os.makedirs(d, exist_ok=True)
    return d


_built = False


def build_harness():
    """Rebuild the harness (path dependency on /repo, hooks feature on) from the current tree."""
    global _built
    if _built:
        return
    t0 = time.time()
    env = dict(os.environ, CARGO_NET_OFFLINE="true")
    p = subprocess.run(["cargo", "build", "--release", "--offline"], cwd=HARN, env=env,
                       stdout=subprocess.PIPE, stderr=subprocess.STDOUT, text=True)
    if p.returncode != 0:
        log(p.stdout[-4000:])
        raise ToolError("harness build failed")
    _built = True
    log("[build] harness built in %.1fs" % (time.time() - t0))


def harness(args, timeout=1800, check=True, env=None):
    build_harness()
    e = dict(os.environ)
    if env:
        e.update(env)
    p = subprocess.run([BIN] + [str(a) for a in args], stdout=subprocess.PIPE, stderr=subprocess.PIPE,
                       text=True, timeout=timeout, env=e)
    if check and p.returncode != 0:
        log(p.stderr[-3000:])
        raise ToolError("harness %s failed (%d)" % (args[:3], p.returncode))
    return p


def last_json(out):
    for line in reversed(out.strip().splitlines()):
        line = line.strip()
        if line.startswith("{"):
            return json.loads(line)
    return {}


# ------------------------------------------------------------------------------------------------
# TLC

def write_cfg(path, spec="Spec", constants=None, invariants=None, properties=None, extra=None,
              constraint=None, view=None, postcondition=None):
    lines = ["SPECIFICATION %s" % spec]
    if constants:
        lines.append("CONSTANTS")
        for k, v in constants.items():
            if isinstance(v, str) and v.startswith("<-"):
                lines.append("  %s %s" % (k, v))
            elif isinstance(v, bool):
                lines.append("  %s = %s" % (k, "TRUE" if v else "FALSE"))
            else:
                lines.append("  %s = %s" % (k, v))
    if invariants:
        lines.append("INVARIANTS " + " ".join(invariants))
    if properties:
        lines.append("PROPERTIES " + " ".join(properties))
    if constraint:
        lines.append("CONSTRAINT " + constraint)
    if view:
        lines.append("VIEW " + view)
    if postcondition:
        lines.append("POSTCONDITION " + postcondition)
    lines.append("CHECK_DEADLOCK FALSE")
    if extra:
        lines += extra
    with open(path, "w") as f:
        f.write("\n".join(lines) + "\n")


RE_STATES = re.compile(r"(\d+) states generated, (\d+) distinct states found, (\d+) states left")


def tlc(module, cfg, wd, workers=1, timeout=900, env=None, coverage=False, xss="512m", xmx="6g",
        extra=None, dfs=False):
    """Run TLC on SPEC/module with config file cfg (absolute).  Returns dict(out, rc, states, distinct)."""
    md = os.path.join(wd, "md_" + os.path.basename(cfg).replace(".cfg", ""))
    shutil.rmtree(md, ignore_errors=True)
    jopts = ["-XX:+UseParallelGC", "-Xss" + xss, "-Xmx" + xmx]
    if dfs:
        jopts.append("-Dtlc2.tool.queue.IStateQueue=StateDeque")
    cmd = ["timeout", str(timeout), "java"] + jopts + ["-cp", TLC_JAR, "tlc2.TLC",
           "-workers", str(workers), "-config", cfg, "-metadir", md, "-cleanup", "-noGenerateSpecTE"]
    if coverage:
        cmd += ["-coverage", "1"]
    if extra:
        cmd += extra
    cmd.append(module)
    e = dict(os.environ)
    e.pop("JAVA_TOOL_OPTIONS", None)
    if env:
        e.update(env)
    t0 = time.time()
    p = subprocess.run(cmd, cwd=SPEC, stdout=subprocess.PIPE, stderr=subprocess.STDOUT, text=True, env=e)
    out = p.stdout
    shutil.rmtree(md, ignore_errors=True)
    m = None
    for m in RE_STATES.finditer(out):
        pass
    res = {"out": out, "rc": p.returncode, "wall": time.time() - t0,
           "generated": int(m.group(1)) if m else 0, "distinct": int(m.group(2)) if m else 0,
           "completed": "Model checking completed" in out,
           "violated": re.findall(r"Invariant (\w+) is violated", out) + re.findall(r"property (\w+) was violated", out, re.I)}
    if p.returncode == 124:
        res["timeout"] = True
    return res


def coverage_counts(out):
    """Per-action counts from a -coverage run: {action: (distinct, total)}."""
    cov = {}
    for m in re.finditer(r"<(\w+) line \d+, col \d+ to line \d+, col \d+ of module (\w+)(?: \([\d ]+\))?>: (\d+):(\d+)", out):
        cov[m.group(1)] = (int(m.group(3)), int(m.group(4)))
    return cov


def model_check(module, cfg_name, wd, workers=8, timeout=900, expect_violation=None, need_actions=None):
    """S1: exhaustive design check.  Failure here is a defect of the machinery => ToolError.
    expect_violation: name of the invariant that MUST be violated (negative control)."""
    cfg = cfg_name if os.path.isabs(cfg_name) else os.path.join(SPEC, cfg_name)
    r = tlc(module, cfg, wd, workers=workers, timeout=timeout, coverage=bool(need_actions), xss="64m", xmx="12g")
    tag = "%s/%s" % (module, os.path.basename(cfg))
    if r.get("timeout"):
        raise ToolError("S1 %s timed out" % tag)
    if expect_violation:
        if expect_violation not in r["violated"]:
            log(r["out"][-3000:])
            raise ToolError("S1 negative control %s: expected violation of %s not found" % (tag, expect_violation))
    else:
        if not r["completed"] or r["violated"] or "Error:" in r["out"]:
            log(r["out"][-4000:])
            raise ToolError("S1 %s did not pass (the specification itself is inconsistent)" % tag)
    if need_actions:
        cov = coverage_counts(r["out"])
        for a in need_actions:
            if cov.get(a, (0, 0))[1] == 0:
                raise ToolError("S1 %s: action %s never taken (vacuous)" % (tag, a))
        r["coverage"] = {k: v[1] for k, v in cov.items()}
    log("[S1] %s: %d states, %d distinct, %.1fs%s" % (tag, r["generated"], r["distinct"], r["wall"],
                                                     " (expected violation found)" if expect_violation else ""))
    return r


def apalache(module, wd, args, timeout=600, expect_error=False):
    """Symbolic check with Apalache (integer-only specs).  Failure is a tool error (S1 guards the spec)."""
    t0 = time.time()
    out_dir = os.path.join(wd, "apalache")
    os.makedirs(out_dir, exist_ok=True)
    cmd = ["timeout", str(timeout), "apalache-mc", "check", "--out-dir=" + out_dir] + args + [os.path.join(SPEC, module)]
    p = subprocess.run(cmd, cwd=wd, stdout=subprocess.PIPE, stderr=subprocess.STDOUT, text=True)
    ok = "The outcome is: NoError" in p.stdout
    shutil.rmtree(out_dir, ignore_errors=True)
    if p.returncode == 124:
        raise ToolError("apalache %s %s timed out" % (module, args))
    if ok == expect_error:
        log(p.stdout[-3000:])
        raise ToolError("apalache %s %s: unexpected outcome" % (module, " ".join(args)))
    log("[S1] apalache %s %s: %s, %.1fs" % (module, " ".join(args), "NoError" if ok else "error found (expected)", time.time() - t0))
    return {"wall": time.time() - t0, "ok": ok}


def tlaps(modules, main, wd, timeout=600, mutate=None):
    """Deductive check with the TLA+ proof system.  `mutate` = (file, old, new): negative control - the same proof over a
    deliberately wrong specification must NOT go through.  Failure is a tool error, never a verdict about the code."""
    t0 = time.time()
    d = os.path.join(wd, "tlaps_neg" if mutate else "tlaps")
    shutil.rmtree(d, ignore_errors=True)
    os.makedirs(d)
    for m in modules:
        text = open(os.path.join(SPEC, m)).read()
        if mutate and mutate[0] == m:
            if mutate[1] not in text:
                raise ToolError("tlaps negative control: text to mutate not found in %s" % m)
            text = text.replace(mutate[1], mutate[2])
        with open(os.path.join(d, m), "w") as f:
            f.write(text)
    p = subprocess.run(["timeout", str(timeout), "tlapm", "--threads", "6", "--cleanfp", main], cwd=d,
                       stdout=subprocess.PIPE, stderr=subprocess.STDOUT, text=True)
    m = re.search(r"All (\d+) obligations? proved", p.stdout)
    shutil.rmtree(d, ignore_errors=True)
    if p.returncode == 124:
        raise ToolError("tlapm %s timed out" % main)
    if mutate:
        if m:
            raise ToolError("tlapm %s: the proof still goes through over a wrong specification (negative control)" % main)
        log("[S1] tlapm %s over a mutated %s: proof fails as it must, %.1fs" % (main, mutate[0], time.time() - t0))
        return {"wall": time.time() - t0, "obligations": 0}
    if not m:
        log(p.stdout[-3000:])
        raise ToolError("tlapm %s: not all obligations proved" % main)
    log("[S1] tlapm %s: all %s obligations proved, %.1fs" % (main, m.group(1), time.time() - t0))
    return {"wall": time.time() - t0, "obligations": int(m.group(1))}


RE_VERDICT = re.compile(r'@@VERDICT\|([A-Z]+)\|(.*)\|(\d+)"?\s*$')
RE_ACCEPT = re.compile(r'@@ACCEPT\|(\d+)\|(\d+)')


def validate_trace(module, trace, wd, constants, timeout=1500, name=None, xmx="5g", dfs=False):
    """S4: replay one recorded log through a trace specification.  Returns dict with verdicts."""
    name = name or os.path.basename(trace).replace(".ndjson", "")
    cfg = os.path.join(wd, "%s_%s.cfg" % (module.replace(".tla", ""), name))
    write_cfg(cfg, constants=constants)
    r = tlc(module, cfg, wd, workers=1, timeout=timeout, env={"TRACE": trace}, xmx=xmx, dfs=dfs)
    verdicts = []
    seen = set()
    accept = None
    for line in r["out"].splitlines():
        m = RE_VERDICT.search(line)
        if m:
            key = (m.group(1), m.group(2), int(m.group(3)))
            if key not in seen:
                seen.add(key)
                verdicts.append({"class": key[0], "why": key[1], "line": key[2], "trace": trace, "module": module, "constants": constants})
        m = RE_ACCEPT.search(line)
        if m:
            accept = (int(m.group(1)), int(m.group(2)))
    if r.get("timeout"):
        raise ToolError("trace validation of %s timed out" % trace)
    if accept is None or not r["completed"]:
        log(r["out"][-4000:])
        raise ToolError("trace validation of %s did not run to the end (spec or log malformed)" % trace)
    r["verdicts"] = verdicts
    r["accept"] = accept
    r["trace"] = trace
    return r


def parallel(jobs, nproc=8):
    """jobs: list of zero-arg callables; returns results in order; re-raises the first exception."""
    with ThreadPoolExecutor(max_workers=nproc) as ex:
        futs = [ex.submit(j) for j in jobs]
        return [f.result() for f in futs]


# ------------------------------------------------------------------------------------------------
# trace files

def read_lines(path, wanted):
    """Return {line_no: parsed json} for the 1-based line numbers in wanted."""
    wanted = set(wanted)
    got = {}
    if not wanted:
        return got
    mx = max(wanted)
    with open(path) as f:
        for i, line in enumerate(f, 1):
            if i in wanted:
                got[i] = json.loads(line)
            if i >= mx:
                break
    return got


RUN_STARTS = ("Reset", "New", "Start")


def extract_run(path, line):
    """The lines of the run that contains `line`, as raw strings, plus the number of its first line.  Runs start with a
    Reset (chunk logs), New (session logs) or Start (interop logs) event; logs without run structure (AMF0, messages,
    clock, pairs, resources, handshake) yield the failing event with a little context before it."""
    run = []
    start = 1
    structured = False
    with open(path) as f:
        for i, s in enumerate(f, 1):
            head = s[:4000]
            is_start = False
            if any(('"ev":"%s"' % t) in head or ('"ev": "%s"' % t) in head for t in RUN_STARTS):
                try:
                    is_start = json.loads(s).get("ev") in RUN_STARTS
                except ValueError:
                    is_start = False
            if is_start:
                structured = True
                if i <= line:
                    run = []
                    start = i
                else:
                    break
            run.append(s)
            if not structured and i >= line:
                break
    if not structured:
        keep = 40 if '"ev":"Proc"' in "".join(run[-3:]) or '"ev":"HsNew"' in "".join(run[:50]) else 2
        start = max(1, line - keep + 1)
        run = run[start - 1:line]
    return start, run


def save_replay(prop, trace, line, verdict, extra=None):
    os.makedirs(REPLAYS, exist_ok=True)
    start, run = extract_run(trace, line)
    h = hashlib.sha1(("".join(run) + json.dumps(verdict, sort_keys=True)).encode()).hexdigest()[:12]
    path = os.path.join(REPLAYS, "%s-%s.json" % (prop, h))
    # make the extracted run self-contained: line references inside chunk logs are absolute
    evs = [json.loads(s) for s in run[:20000]]
    off = start - 1
    for e in evs:
        if isinstance(e, dict):
            if isinstance(e.get("ml"), int):
                e["ml"] -= off
            if e.get("ev") == "Reset" and isinstance(e.get("next"), int):
                e["next"] = min(e["next"] - off, len(evs) + 1)
                e["c1"] = e.get("c1", 0) - e.get("c0", 0)
                e["c0"] = 0
    body = {"property": prop, "verdict": verdict, "run_first_line": start, "failing_line_in_run": line - start + 1,
            "source_trace": trace, "module": verdict.get("module"), "constants": verdict.get("constants"), "events": evs}
    if extra:
        body.update(extra)
    with open(path, "w") as f:
        json.dump(body, f)
    return path


# ------------------------------------------------------------------------------------------------
# known findings

def load_known():
    if not os.path.exists(KNOWN):
        return []
    with open(KNOWN) as f:
        return json.load(f).get("findings", [])


def match_known(prop, verdict, event, known):
    """A finding matches when property, class, reason pattern and every discriminating condition on the
    failing event agree.  Only status == 'known' entries suppress; 'fixed' entries suppress nothing."""
    for k in known:
        if k.get("status") != "known":
            continue
        if prop not in k.get("properties", [k.get("property")]):
            continue
        sig = k["signature"]
        if sig.get("class") and sig["class"] != verdict.get("class"):
            continue
        if sig.get("why") and not re.search(sig["why"], verdict.get("why", "")):
            continue
        ok = True
        for fld, val in sig.get("event", {}).items():
            cur = event
            for part in fld.split("."):
                cur = cur.get(part) if isinstance(cur, dict) else None
            if isinstance(val, dict) and "regex" in val:
                if cur is None or not re.search(val["regex"], str(cur)):
                    ok = False
            elif cur != val:
                ok = False
        if ok:
            return k
    return None


# ------------------------------------------------------------------------------------------------
# result bookkeeping

class Outcome:
    def __init__(self, prop, tier, level):
        self.prop = prop
        self.tier = tier
        self.level = level
        self.t0 = time.time()
        self.violations = []      # (verdict, replay path)
        self.known_hits = {}      # id -> (finding, count)
        self.cov = {"states": 0, "transitions": 0, "traces_validated_against_impl": 0, "samples": []}
        self.assumptions = []
        self.known = load_known()

    def add_s1(self, r, label):
        self.cov["states"] += r["distinct"]
        self.cov["transitions"] += r["generated"]
        self.cov.setdefault("s1_runs", []).append({"config": label, "distinct_states": r["distinct"],
                                                    "states_generated": r["generated"], "wall_s": round(r["wall"], 1)})

    def add_trace(self, r, runs=0):
        self.cov["traces_validated_against_impl"] += runs
        self.cov["s4_states"] = self.cov.get("s4_states", 0) + r["distinct"]
        self.cov.setdefault("s4_logs", []).append({"log": os.path.basename(r["trace"]), "lines": r["accept"][0],
                                                    "tlc_states": r["distinct"], "verdicts": len(r["verdicts"]),
                                                    "wall_s": round(r["wall"], 1)})

    def verdicts(self, r, classes=None, event_of=None):
        """Turn the verdicts of one validated log into violations / known findings.
        classes: verdict classes that count for this property (others are ignored here and
        reported by the property they belong to); TOOL verdicts are always tool errors."""
        vs = r["verdicts"]
        tool = [v for v in vs if v["class"] == "TOOL"]
        if tool:
            raise ToolError("harness/log inconsistency: %s (line %d of %s)" % (tool[0]["why"], tool[0]["line"], tool[0]["trace"]))
        mine = [v for v in vs if classes is None or v["class"] in classes]
        evs = read_lines(r["trace"], [v["line"] for v in mine])
        for v in mine:
            ev = evs.get(v["line"], {})
            if event_of:
                ev = event_of(ev)
            k = match_known(self.prop, v, ev, self.known)
            if k:
                self.known_hits.setdefault(k["id"], [k, 0, v, ev])[1] += 1
            else:
                if len(self.violations) < 5:
                    path = save_replay(self.prop, v["trace"], v["line"], v)
                    self.violations.append((v, path))
                else:
                    self.violations.append((v, self.violations[0][1]))

    def sample(self, s):
        if len(self.cov["samples"]) < 6:
            self.cov["samples"].append(s)

    def finish(self, extra_cov=None, rule=None):
        if extra_cov:
            self.cov.update(extra_cov)
        os.makedirs(EVID, exist_ok=True)
        if not self.cov["samples"]:
            self.cov["samples"].append("none recorded")
        ev = {"property_id": self.prop, "tier": self.tier, "seed": seed(), "level": self.level,
              "coverage": self.cov, "assumptions": self.assumptions,
              "wall_s": round(time.time() - self.t0, 1), "violations": len(self.violations)}
        if self.level in ("exploration", "fault_enumeration"):
            self.cov.setdefault("evaluations", 0)
            self.cov.setdefault("distinct_nontrivial", 0)
            self.cov.setdefault("rule", rule or "")
        if rule:
            self.cov["rule"] = rule
        self.cov["known_findings_hit"] = {k: v[1] for k, v in self.known_hits.items()}
        with open(os.path.join(EVID, self.prop + ".json"), "w") as f:
            json.dump(ev, f, indent=1, default=str)
        for kid, (k, n, v, e) in self.known_hits.items():
            print("KNOWN-FINDING: property=%s %s [%s, %d occurrence(s) in this run]" % (self.prop, k["description"], kid, n))
        if self.violations:
            shown = set()
            for v, path in self.violations:
                if path in shown:
                    continue
                shown.add(path)
                print("VIOLATION property=%s replay=%s" % (self.prop, path))
                print("  reason: [%s] %s (line %d of %s)" % (v["class"], v["why"], v["line"], v["trace"]))
            return 1
        print("OK property=%s tier=%s wall=%.0fs" % (self.prop, self.tier, time.time() - self.t0))
        return 0
