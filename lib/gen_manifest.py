#!/usr/bin/env python3
"""Regenerates /verif/MANIFEST.json from the table below (kept in one place so that it stays valid)."""
import json, os
VERIF = os.path.dirname(os.path.dirname(os.path.abspath(__file__)))

MC = "model_checking"
EX = "exploration"

# id -> (category, technique, text, note, design_ref)
CLAIMED = {
 "C06": (MC, "TLC: ChunkProto sender x reference receiver (exhaustive, small constants) + trace validation of foreign byte streams (Trace_Chunk, real constants)",
         "Design level: every legal encoding is decoded exactly by the reference receiver (TLC, exhaustive for 2 csids/2 types/words mod 4). Code level: harness-encoded foreign streams are parsed by the TLA+ reference receiver and fed to the library deserializer; three-way agreement per message, per input call.",
         "TLC; the harness event logger; foreign streams are sampled (boundary tables + seeded random), not enumerated", "5 C06"),
}

NOT_YET = {}

def main():
    props = [json.loads(l) for l in open(os.path.join(VERIF, "properties.jsonl"))]
    checks = []
    na = []
    for p in props:
        i = p["id"]
        if i in CLAIMED:
            cat, tech, text, note, ref = CLAIMED[i]
            checks.append({
                "property_id": i,
                "quick_cmd": "./check %s quick" % i,
                "thorough_cmd": "./check %s thorough" % i,
                "evidence_file": "/verif/evidence/%s.json" % i,
                "replay_cmd_template": "./check replay {path}",
                "engine": "tla-trace",
                "level_claimed": {"category": cat, "text": text, "design_ref": "DESIGN.md section " + ref},
                "level_note": note,
                "technique": tech,
            })
        else:
            na.append({"property_id": i, "reason": NOT_YET.get(i, "check not built yet in this round (planned, see DESIGN.md section 5); not a statement that the technique cannot apply")})
    m = {
        "version": 1,
        "setup_cmd": "cd /verif/harness && CARGO_NET_OFFLINE=true cargo build --release --offline",
        "hooks": {
            "guard": "cargo feature `verif` of rml_rtmp (off by default)",
            "enable": "the harness crate /verif/harness depends on /repo/rtmp by path with features=[\"verif\"]; it has its own [workspace], so `cargo test --workspace` in /repo never sees the feature",
            "baseline_off_cmd": "cd /repo && cargo test --workspace --no-fail-fast --offline",
            "source_commits": [],
            "add_only": True,
        },
        "engines": [
            {"name": "tla-trace", "path": "/verif/spec", "serves_properties": sorted(CLAIMED.keys()),
             "kind_free_text": "explicit TLA+ specifications checked by TLC (design level, small constants) and bound to the code by trace validation: the Rust harness /verif/harness drives the real library and records ndjson logs which TLC replays through the same specifications with the real constants"},
        ],
        "checks": checks,
        "not_applicable": na,
        "notes": "See DESIGN.md. ./check <ID> <quick|thorough> rebuilds the harness from /repo's working tree on every run.",
    }
    with open(os.path.join(VERIF, "MANIFEST.json"), "w") as f:
        json.dump(m, f, indent=1)
    print("claimed:", len(checks), "not_applicable:", len(na))

if __name__ == "__main__":
    main()
