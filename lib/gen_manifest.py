#!/usr/bin/env python3
"""Regenerates /verif/MANIFEST.json from the table below (kept in one place so that it stays valid)."""
import json, os
VERIF = os.path.dirname(os.path.dirname(os.path.abspath(__file__)))

MC = "model_checking"
EX = "exploration"

# id -> (category, technique, text, note, design_ref)
CLAIMED = {
 "C06": (MC, "TLC: ChunkProto sender x reference receiver (exhaustive, small constants); Gen_ChunkRx: TLC-generated chunk-level behaviours of an arbitrary conformant peer at the real constants (class-window cover) encoded and fed to the real deserializer (S2); trace validation of these and of random foreign byte streams (Trace_Chunk, real constants)",
         "Design level: every legal encoding is decoded exactly by the reference receiver (TLC, exhaustive for 2 csids/2 types/words mod 4). Code level: harness-encoded foreign streams are parsed by the TLA+ reference receiver and fed to the library deserializer; three-way agreement per message, per input call.",
         "TLC; the harness event logger; foreign streams are sampled (boundary tables + seeded random), not enumerated", "5 C06"),
}

CLAIMED.update({
 "C01": (MC, "TLC: MC_Chunk (library header-compression policy refines the legal sender; reference receiver delivers exactly) ; Gen_Chunk: TLC-generated serializer call sequences at the real constants (class-window cover) replayed on the real codec (S2); trace validation of these and of random library serializer -> library deserializer runs under several input partitions (Trace_Chunk, intent oracle)",
         "Design level: the library's format/csid policy, transcribed, only ever picks encodings the protocol allows and the reference receiver reassembles them exactly (exhaustive, small constants). Code level: for generated message sequences (boundary tables, all flags, size changes, payloads up to 16,777,215 bytes) the messages returned by every input call must be exactly the intended messages whose last byte that call delivered; every accepted message must yield a non-empty packet.",
         "TLC; harness logger; message sequences are boundary-table driven + seeded random, not enumerated; S1 constants: words mod 4, lengths {0,1,3}, chunk sizes {1,2}, 2 messages (quick)", "5 C01"),
 "C07": (MC, "TLC trace validation (random and TLC-generated Gen_Chunk call sequences): every byte the library serializer returns is parsed by the TLA+ ChunkWire module (RTMP 5.3.1 layout; self-checked by MC_Wire) and run through the reference receiver ChunkProto!Rx; decoded header/payload must equal the intended message",
         "The decoder that judges the library's output is written in TLA+ from the protocol document and shares no code or constant with the library, so a symmetric change to serializer and deserializer is rejected. Checks csid minimality, predecessor rule, 24-bit saturation/extended field, payload cut by the announced chunk size, in-band size announcement before use.",
         "TLC; harness logger; ChunkWire/ChunkProto as a faithful reading of RTMP 1.0 section 5.3.1", "5 C07"),
 "C08": (MC, "TLC: MC_Chunk with dropped droppable messages (and a negative control without the rule) + Trace_Chunk exploring ALL 2^k subsets of droppable packets of each recorded serializer run (random and TLC-generated Gen_Chunk sequences incl. refused calls between droppable packets)",
         "The drop decision is left nondeterministic in the trace specification, so TLC explores every subset of omitted droppable packets for each recorded run; each surviving packet must decode to its own message. The library's deserializer is additionally run on sampled subsets.",
         "TLC; harness logger", "5 C08"),
 "C16": (MC, "TLC: MC_Chunk with Interleave = TRUE; Gen_ChunkRx interleaved behaviours (S2); trace validation of harness-encoded interleaved streams (2-16 chunk streams) fed to the library deserializer",
         "Design level: per-csid reassembly delivers every interleaving exactly. Code level: interleaved multi-chunk messages on 2-4 csids (with in-band size changes in flight), validated by the reference receiver and compared with the library's output per input call.",
         "TLC; harness logger; interleavings sampled", "5 C16"),
})

CLAIMED.update({
 "C04": (MC, "TLC: MC_Amf0 (reference Enc/Dec round trip, exhaustive on a small universe); Gen_Amf0: every reference encoding of a larger TLC-enumerated universe replayed on the real codec (S2); trace validation of library serialize->deserialize (Trace_Amf0: values compared in TLA+, numbers bitwise, objects as maps)",
         "Every recorded encode call is judged by the specification: success requires that the bytes decode (library decoder) to the identical value sequence with all bytes consumed, and that the value is representable; a refusal is legal only for unrepresentable values.",
         "TLC; harness logger; values are boundary-table driven + seeded random", "5 C04"),
 "C12": (MC, "TLC: MC_Amf0 + Gen_Amf0 (TLC-enumerated reference encodings, all strict prefixes, bad-marker variants fed to the real decoder) + Trace_Amf0: a reference AMF0 decoder written in TLA+ from the AMF0 specification reads the library's bytes (encoder direction) and defines what harness-made reference encodings denote (decoder direction, incl. all 256 markers, every truncation point)",
         "The oracle for the wire format is the TLA+ module Amf0 (markers, widths, byte orders, terminator), independent of the library's marker constants; a change of a marker on both library sides is rejected.",
         "Amf0.tla as a faithful reading of the AMF0 specification; TLC; harness logger and its reference encoder (validated by the TLA+ decoder per case: disagreement is a tool error)", "5 C12"),
})

CLAIMED.update({
 "C13": (MC, "TLC: MC_Msg; Gen_Msg: TLC-enumerated universe of well-formed messages whose reference bodies are replayed on the real conversion in both directions (S2); trace validation against RtmpMsg.tla (type ids, body layouts, event and limit codes from RTMP 1.0) with AMF0 bodies read by the TLA+ reference decoder; both directions; all 256 type ids",
         "Every recorded conversion is judged by the specification: the type id and body must be the layout the protocol document prescribes and must convert back to an equal message; foreign reference bodies (incl. ids 15/17) must decode to what they denote; unknown ids pass through; chunk sizes above 2^31-1 are rejected in both directions.",
         "RtmpMsg.tla/Amf0.tla as faithful readings of the specifications; TLC; harness logger", "5 C13"),
 "C09": (MC, "TLC: MC_Server explores every history of ServerSession.tla over a small alphabet with history variables restating C09 (no depth bound); Gen_Server prints every transition and a transition-covering set of paths is replayed on the real ServerSession (S2); Trace_Server replays these and random histories through the same SrvStep function",
         "Design level: the request/stream state machine satisfies every clause of the property in all histories (20k-890k distinct states). Code level: random histories over every message class and application call incl. stale/never-issued ids on the real session; every call's events, responses and (for refusals) state are judged by the model; fresh ids may be any unused value.",
         "TLC; probe hook; message-level logs trust the library codec for decoding returned packets (C18 re-checks bytes)", "5 C09"),
 "C10": (MC, "TLC: MC_Client (every history, observation-driven history state); Gen_Client transition cover replayed on the real ClientSession (S2); Trace_Client replays these and random histories through CliStep",
         "Same construction as C09 for the client workflow: permitted states per request, transaction bookkeeping, status dispatch, media gating, stop, ping echo.",
         "TLC; probe hook; library codec for decoding returned packets", "5 C10"),
 "C17": (MC, "Apalache: inductive invariant of AckFlat for all windows 1..2^32-1 and all call sizes; TLAPS: Spec => []Inv for every modulus (AckFlatProof, 39 obligations); TLC: small windows exhaustively; Trace_Server/Trace_Client judge every input call of both real sessions (whole messages and fragments that complete none) with AckStep",
         "The accounting law (conservation, fewer than W outstanding, an acknowledgement exactly when the threshold is reached, carrying the count) is proved inductive symbolically over unbounded integers; each recorded handle_input call of both sessions is then checked against the same step function with the real window values.",
         "Apalache/Z3; tlapm (SMT back end); TLC; the byte count of a call is the length of the slice passed in", "5 C17"),
})

CLAIMED.update({
 "C18": (MC, "TLC: Trace_Chunk (reference receiver, ALL drop subsets) over every packet both real sessions returned, in returned order, with the serializer-tap intent per packet; uptime scheduled across 2^24 and 2^32 ms through the clock hook; message-level WIRE checks in Trace_Server/Trace_Client",
         "The bytes a session hands out are parsed by the TLA+ receiver written from the protocol document; each packet must decode, under every subset of dropped droppable packets, to exactly the message the session asked its serializer to encode for that packet, which pinpoints order and loss defects; chunk-size changes are learnt from the wire only.",
         "serializer tap and clock hooks; TLC; harness logger", "5 C18"),
 "C05": (MC, "TLC: MC_Handshake (two peers, all fragmentations/interleavings, safety + liveness under weak fairness, P=3) ; MC_HandshakeLegacy (library stage machine x digest-less peer from the protocol description in ten styles, content-level echo / order / exactly-once, liveness, negative control) + Trace_Handshake replays every process call of real exchanges through HsStep with P=1536 (handed-back bytes compared by value)",
         "Design level: no early completion, exactly 1+2P bytes emitted, byte conservation, only trailing bytes reach the application, both sides eventually complete. Code level: real x real and real x legacy peer under whole/boundary/random/1-byte fragmentation with trailing data.",
         "TLC; harness logger", "5 C05"),
 "C11": (EX, "Trace_Handshake digest rules in TLA+ (offset functions, role->key table, signature vs echo) evaluated by TLC over facts about an uninterpreted HMAC-SHA256 supplied by an independent harness implementation; all 728 received offsets x 2 schemes x 2 roles enumerated, own offsets through the deterministic fill hook",
         "Exploration level, exhaustive over the received-offset space and (since round 2, by re-seeding the fill hook until every offset was generated) over the own-offset space of both roles; the random remainder of the packets is sampled.",
         "harness HMAC-SHA256 (FIPS 180-4/RFC 2104, self-checked against RFC 4231); fill hook; TLC", "5 C11"),
 "C20": (MC, "Apalache: clock laws for ALL (a,d) in u32 x u32 on a transcription of time.rs (ClockFlat); TLAPS: the same laws deductively (ClockFlatProof, 211 obligations) and correctness of the limb arithmetic U32 for Base = 65536 (U32Apa, with a refuted negative control); TLC: limb refinement exhaustively for Base = 16 (MC_Clock); Trace_Clock recomputes every operator result of the real RtmpTimestamp on boundary and random pairs",
         "Symbolic proof over the full 2^64 input space for the transcription; the transcription is bound to the code by trace validation on the boundary product (distances 2^31-2 .. 2^31+2, wraps) through all operators incl. u32 on either side.",
         "ClockFlat transcription; Apalache/Z3; tlapm (SMT back end); TLC", "5 C20"),
 "C03": (EX, "Trace_Resource: call/return alphabet without panic/death/timeout actions + allocation/time envelope as invariants, over a state x malformed-class product executed in supervised child processes",
         "Exploration: the structured part enumerates (session state) x (hostile message class) x (fragmentation); byte mutation of valid streams is seeded sampling. The decisive observations are measurements.",
         "child-process supervisor, counting allocator, overflow-checked build; TLC", "5 C03"),
 "C14": (EX, "Trace_Resource over pumped AMF0 nesting skeletons and lying headers decoded (and dropped) on a 2 MiB stack in a supervised child",
         "Exploration: all nesting words up to length 3 pumped to depth 10^6 (length/5 for 16 MiB), lying counts up to 2^32-1, flat inputs; envelope peak <= 256*len + 1 MiB.",
         "child-process supervisor, counting allocator; TLC", "5 C14"),
 "C19": (EX, "Trace_Resource with the Honoured(class) table in TLA+ (what each configuration class must do) over the full class product at every entry point, in supervised child processes",
         "Exhaustive over the class product; refusal classes must return an error, accepted classes must return ok, still carry messages, and stay inside the time/memory envelope (a hang or runaway allocation is a dead child = no action in the specification).",
         "child-process supervisor; 'still works' = codec round trip / ping / media probe plus complete dialogues with a real session of the other role, evaluated in the harness child; TLC", "5 C19"),
})

CLAIMED.update({
 "C02": (MC, "TLC: MC_Interop composes ClientSession.tla and ServerSession.tla over two FIFO message channels with an accepting application (safety + liveness under weak fairness) + Trace_Interop judges item-level logs of two real sessions wired back to back under byte-level schedules",
         "Design level: the two session specifications are checked against each other (each one's outbound observations are the other's inbound messages): the workflow completes, items arrive exactly once in order under the requested app/key, stop raises finished. Code level: real x real under fragmentation/interleaving/configuration/uptime classes with a FIFO exactly-once oracle comparing payloads, timestamps and every metadata field by value.",
         "TLC; scheduler delivers bytes in order per direction; the message-level model has no bytes (C15 is the lemma for fragmentation)", "5 C02"),
 "C15": (MC, "TLC: MC_Staged (staged parser reaches the one-shot state under every partition; negative control) + Trace_Chunk accepting both partitions of each valid stream + Trace_Pair relational check of two partitions for mutated/invalid streams on deserializer and both sessions",
         "For valid streams two accepted logs of the same stream necessarily agree (the oracle assigns outputs to stream offsets); for streams without reference meaning the relation between the two runs is the property and is evaluated in TLA+.",
         "TLC; clock hook; acknowledgements projected away for sessions", "5 C15"),
})

NOT_YET = {}

def main():
    props = [json.loads(l) for l in open(os.path.join(VERIF, "properties.jsonl"))]
    checks = []
    na = []
    for p in props:
        i = p["id"]
        if i in CLAIMED:
            cat, tech, text, note, ref = CLAIMED[i]
            checks.append({
                "property_id": i,
                "quick_cmd": "./check %s quick" % i,
                "thorough_cmd": "./check %s thorough" % i,
                "evidence_file": "/verif/evidence/%s.json" % i,
                "replay_cmd_template": "./check replay {path}",
                "engine": "tla-trace",
                "level_claimed": {"category": cat, "text": text, "design_ref": "DESIGN.md section " + ref},
                "level_note": note,
                "technique": tech,
            })
        else:
            na.append({"property_id": i, "reason": NOT_YET.get(i, "check not built yet in this round (planned, see DESIGN.md section 5); not a statement that the technique cannot apply")})
    m = {
        "version": 1,
        "setup_cmd": "cd /verif/harness && CARGO_NET_OFFLINE=true cargo build --release --offline",
        "hooks": {
            "guard": "cargo feature `verif` of rml_rtmp (off by default)",
            "enable": "the harness crate /verif/harness depends on /repo/rtmp by path with features=[\"verif\"]; it has its own [workspace], so `cargo test --workspace` in /repo never sees the feature",
            "baseline_off_cmd": "cd /repo && cargo test --workspace --no-fail-fast --offline",
            "source_commits": ["463abf0", "ce8c513"],
            "add_only": True,
        },
        "engines": [
            {"name": "tla-trace", "path": "/verif/spec", "serves_properties": sorted(CLAIMED.keys()),
             "kind_free_text": "explicit TLA+ specifications checked by TLC (design level, small constants) and bound to the code by trace validation: the Rust harness /verif/harness drives the real library and records ndjson logs which TLC replays through the same specifications with the real constants"},
        ],
        "checks": checks,
        "not_applicable": na,
        "notes": "See DESIGN.md (section 0 = as built). ./check <ID> <quick|thorough> rebuilds the harness from /repo's working tree on every run; exit 2 = tool error (never a verdict about the code). Repairs of genuine defects are the unguarded `fix:` commits in /repo listed in KNOWN_FINDINGS.json (status fixed); K1/K1b are known findings.",
    }
    with open(os.path.join(VERIF, "MANIFEST.json"), "w") as f:
        json.dump(m, f, indent=1)
    print("claimed:", len(checks), "not_applicable:", len(na))

if __name__ == "__main__":
    main()
