"""S5 - binding self-test by trace corruption: one recorded field of a log that the specification accepts is
changed; the corrupted log must be rejected.  Shows that the trace specifications constrain more than length."""
import json, os, random


def _flip_segs(segs, rnd):
    """flip one byte inside a literal segment; returns True if something was changed"""
    lits = [s for s in segs if "l" in s and s["l"]]
    if not lits:
        return False
    s = rnd.choice(lits)
    i = rnd.randrange(len(s["l"]))
    s["l"][i] = (s["l"][i] + 1 + rnd.randrange(254)) % 256
    return True


def corrupt(kind, lines, rnd):
    """lines: list of parsed events; mutate ONE event in place; returns a description or None"""
    idx = list(range(len(lines)))
    rnd.shuffle(idx)
    for i in idx:
        e = lines[i]
        ev = e.get("ev")
        if kind == "chunk_wire" and ev == "Ser" and e.get("res") == "ok" and e.get("len", 0) > 0 and not e.get("omit"):
            # change the intended payload: the bytes on the wire no longer carry it
            if _flip_segs(e["data"], rnd):
                return "line %d: one byte of the intended payload changed" % (i + 1)
        if kind == "chunk_feed" and ev == "Feed" and e.get("out"):
            o = rnd.choice(e["out"])
            o["ts"] = [o["ts"][0], (o["ts"][1] + 1) % 65536]
            return "line %d: timestamp of a returned message changed" % (i + 1)
        if kind == "amf" and ev == "Enc" and e.get("res") == "ok":
            if _flip_segs(e["bytes"], rnd):
                return "line %d: one encoded byte changed" % (i + 1)
        if kind == "msg" and ev == "ToPayload" and e.get("res") == "ok":
            e["ty"] = (e["ty"] + 1) % 256
            return "line %d: type id changed" % (i + 1)
        if kind == "server" and ev in ("In", "Call"):
            for r in e.get("results", []):
                if r.get("k") == "event" and "req" in r:
                    r["req"] = r["req"] + 7
                    # later uses of the id would be inconsistent too; the first inconsistency must be reported
                    return "line %d: request id of a raised event changed" % (i + 1)
        if kind == "client" and ev == "In" and e.get("i", {}).get("m") == "result" and e.get("res") == "ok":
            evs = [r for r in e.get("results", []) if r.get("k") == "event" and r.get("o") in ("ConnAccepted", "UnknownTxn")]
            if evs:
                e["results"].remove(evs[0])
                return "line %d: a raised event removed" % (i + 1)
        if kind == "ack" and ev == "In":
            acks = [r for r in e.get("results", []) if r.get("k") == "out" and r.get("msg", {}).get("k") == "Ack"]
            if acks:
                acks[0]["msg"]["v"] = [acks[0]["msg"]["v"][0], (acks[0]["msg"]["v"][1] + 1) % 65536]
                return "line %d: acknowledged byte count changed" % (i + 1)
        if kind == "hs" and ev == "Proc" and e.get("kind") == "Completed":
            e["kind"] = "InProgress"
            return "line %d: completion hidden" % (i + 1)
        if kind == "clock" and ev == "Clk":
            e["add"] = [e["add"][0], (e["add"][1] + 1) % 65536]
            return "line %d: sum changed" % (i + 1)
        if kind == "interop" and ev == "Recv" and e.get("kind") != "meta":
            e["ts"] = [e["ts"][0], (e["ts"][1] + 1) % 65536]
            return "line %d: timestamp of a raised item changed" % (i + 1)
        if kind == "res" and ev == "Return" and e.get("res") == "ok":
            e["res"] = "panic:injected"
            return "line %d: return replaced by a panic" % (i + 1)
    return None


def run(vlib, module, constants, log_path, kind, wd, n=3, seed=1, max_lines=4000):
    """corrupt n copies of (a prefix of) log_path, validate each; returns dict(mutated, rejected, cases)"""
    rnd = random.Random(seed * 7919 + len(kind))
    base = []
    with open(log_path) as f:
        for k, line in enumerate(f):
            base.append(line)
    # keep whole runs: cut at the last Reset/New/Start before max_lines when the log is longer
    if len(base) > max_lines:
        cut = max_lines
        for j in range(max_lines, 0, -1):
            if any(t in base[j][:200] for t in ('"ev":"Reset"', '"ev":"New"', '"ev":"Start"', '"ev":"HsNew","role"')) or '"ev":"Reset"' in base[j]:
                cut = j
                break
        base = base[:cut]
    res = {"mutated": 0, "rejected": 0, "cases": []}
    # verdicts the UNcorrupted prefix already has (known findings): a corruption counts as rejected only by a NEW verdict
    bpath = os.path.join(wd, "s5_%s_base.ndjson" % kind)
    with open(bpath, "w") as f:
        for x in base:
            e = json.loads(x)
            if e.get("ev") == "Reset" and isinstance(e.get("next"), int) and e["next"] > len(base) + 1:
                e["next"] = len(base) + 1
            f.write(json.dumps(e) + "\n")
    rb = vlib.validate_trace(module, bpath, wd, constants, name="s5_%s_base" % kind)
    os.remove(bpath)
    known = set((v["class"], v["why"], v["line"]) for v in rb["verdicts"])
    for k in range(n):
        lines = [json.loads(x) for x in base]
        # a cut chunk log must stay self-contained
        for e in lines:
            if e.get("ev") == "Reset" and isinstance(e.get("next"), int) and e["next"] > len(lines) + 1:
                e["next"] = len(lines) + 1
        what = corrupt(kind, lines, rnd)
        if what is None:
            continue
        path = os.path.join(wd, "s5_%s_%d.ndjson" % (kind, k))
        with open(path, "w") as f:
            for e in lines:
                f.write(json.dumps(e) + "\n")
        r = vlib.validate_trace(module, path, wd, constants, name="s5_%s_%d" % (kind, k))
        fresh = [v for v in r["verdicts"] if (v["class"], v["why"], v["line"]) not in known]
        r["verdicts"] = fresh
        rejected = len(fresh) > 0
        res["mutated"] += 1
        res["rejected"] += 1 if rejected else 0
        res["cases"].append({"corruption": what, "rejected": rejected,
                             "verdict": (r["verdicts"][0]["class"] + ": " + r["verdicts"][0]["why"]) if rejected else None})
        os.remove(path)
    return res
