"""One function per property: S1 (design check with TLC) -> S3 (drive the real code, record) ->
S4 (TLC validates the record against the specification with the real constants)."""
import json
import os
import re
import time

import vlib
import selftest
from vlib import Outcome, ToolError, log


def s5(out, module, constants, log_path, kind, wd, n=3):
    """binding self-test by trace corruption; a corruption that is NOT rejected means the trace specification does not
    constrain that field: a defect of the machinery (exit 2), never a verdict about the code.
    The self-test needs a log the specification accepts as its baseline: when the code under test already violates the
    property the corrupted line may sit in a run that was abandoned at the violation, so the self-test says nothing
    then and must not turn the VIOLATION into a tool error."""
    if out.violations:
        out.cov.setdefault("binding_selftest", {})[kind] = {"skipped": "violations were found; the self-test needs an accepted baseline"}
        return
    r = selftest.run(vlib, module, constants, log_path, kind, wd, n=n, seed=vlib.seed())
    out.cov.setdefault("binding_selftest", {})[kind] = r
    if r["mutated"] and r["rejected"] < r["mutated"]:
        raise ToolError("binding self-test: a corrupted %s log was accepted by %s: %s" % (kind, module, [c for c in r["cases"] if not c["rejected"]][:1]))

REAL = {"Base": 65536, "Thr": "<- ThrReal"}


def nshards(tier):
    return 8


# ------------------------------------------------------------------------------------------------
# chunk layer

def chunk_logs(wd, kind, tier, shards=None):
    vlib.build_harness()
    shards = shards or nshards(tier)
    if kind == "big":
        shards = 1 if tier == "quick" else 6

    def gen(i):
        path = os.path.join(wd, "%s_%d.ndjson" % (kind, i))
        p = vlib.harness(["chunk", kind, i, shards, "--tier", tier, "--seed", vlib.seed(), "--out", path])
        info = vlib.last_json(p.stdout)
        return path, info
    return vlib.parallel([(lambda i=i: gen(i)) for i in range(shards)], nproc=8)


def chunk_validate(out, logs, wd, allow_drops, check_wire, take, tag):
    """take(verdict) -> bool: does this verdict count for the property being checked?"""
    consts = dict(REAL, AllowDrops=allow_drops, CheckWire=check_wire)
    res = vlib.parallel([(lambda pth=pth: vlib.validate_trace("Trace_Chunk.tla", pth, wd, consts,
                                                               name=tag + "_" + os.path.basename(pth).replace(".ndjson", "")))
                         for pth, _ in logs], nproc=8)
    for (pth, info), r in zip(logs, res):
        out.add_trace(r, runs=info.get("runs", 0))
        out.cov["messages_driven"] = out.cov.get("messages_driven", 0) + info.get("messages", 0)
        # DRIFT: the library no longer follows the transcribed compression policy (diagnostic only)
        out.cov["spec_drift"] = out.cov.get("spec_drift", 0) + len([v for v in r["verdicts"] if v["class"] == "DRIFT"])
        r["verdicts"] = [v for v in r["verdicts"] if v["class"] == "TOOL" or take(v)]
        out.verdicts(r)
    return res


def sample_events(out, path, kinds, n=2):
    got = 0
    with open(path) as f:
        for line in f:
            if len(line) < 1500:
                e = json.loads(line)
                if e.get("ev") in kinds:
                    out.sample(e)
                    got += 1
                    if got >= n:
                        return


CHUNK_ASSUME = ["TLC explores the small-constant model exhaustively; real-constant behaviour rests on the validated traces",
                "the harness event logger and its lossless run-length pass over byte buffers",
                "ndJsonDeserialize (CommunityModules) reads the log faithfully"]


def is_des(v):
    return v["class"] == "DES"


def is_ser(v):
    return v["class"] == "SER"


def chunk_gen_logs(out, wd, tier, side="tx"):
    """S2 for the chunk layer: TLC enumerates behaviours at the real constants - serializer call sequences from
    Gen_Chunk.tla (side tx) or chunk-level behaviours of an arbitrary conformant peer from Gen_ChunkRx.tla (side rx) -
    keeping one representative per window of step classes (VIEW); the harness replays each printed behaviour through
    the real codec.  While generating, TLC also checks Delivered (reference receiver, real constants)."""
    mod = "Gen_Chunk" if side == "tx" else "Gen_ChunkRx"
    if side == "tx":
        consts = dict(REAL, MaxSteps=3, K=1, Fine=False) if tier == "quick" else dict(REAL, MaxSteps=4, K=1, Fine=True)
    else:
        consts = dict(REAL, MaxSteps=6, K=1, Fine=False) if tier == "quick" else dict(REAL, MaxSteps=8, K=1, Fine=True)
    cfg = os.path.join(wd, "%s_%s.cfg" % (mod, tier))
    vlib.write_cfg(cfg, constants=consts, invariants=["Delivered", "Emit"], view="GenView")
    r = vlib.tlc(mod + ".tla", cfg, wd, workers=1 if tier == "quick" else 6, timeout=1500, xss="64m", xmx="8g")
    if r.get("timeout") or not r["completed"] or r["violated"]:
        log(r["out"][-2000:])
        raise ToolError("S2 generation %s failed (%s)" % (mod, r["violated"] or "incomplete"))
    paths = []
    for line in r["out"].splitlines():
        if line.startswith('"@@PATH|'):
            paths.append(json.loads(json.loads(line)[len("@@PATH|"):]))
    # keep maximal behaviours only (a printed prefix of another printed behaviour adds nothing)
    keys = [tuple(json.dumps(st, sort_keys=True) for st in p) for p in paths]
    prefixes = set()
    for k in keys:
        for n in range(1, len(k)):
            prefixes.add(k[:n])
    keep = [p for p, k in zip(paths, keys) if k not in prefixes]
    pfile = os.path.join(wd, mod + ".paths.ndjson")
    with open(pfile, "w") as f:
        for p in keep:
            f.write(json.dumps(p) + "\n")
    vlib.build_harness()
    shards = 8
    kind = "gen" if side == "tx" else "genrx"

    def gen(i):
        path = os.path.join(wd, "%s_%d.ndjson" % (kind, i))
        q = vlib.harness(["chunk", kind, i, shards, pfile, "--seed", vlib.seed(), "--out", path])
        return path, vlib.last_json(q.stdout)
    logs = vlib.parallel([(lambda i=i: gen(i)) for i in range(shards)], nproc=8)
    fmts = {}
    for p in keep:
        for st in p:
            if st["k"] in ("data", "start"):
                fmts[st["fmt"]] = fmts.get(st["fmt"], 0) + 1
    out.cov["s2" if side == "tx" else "s2_rx"] = {
        "model": mod + " (real constants: words mod 2^32, saturation at 0xFFFFFF)", "constants": {k: str(v) for k, v in consts.items()},
        "model_states_generated": r["generated"], "class_windows": r["distinct"], "behaviours_replayed": len(keep),
        "steps_by_header_format": {str(k): v for k, v in sorted(fmts.items())},
        "design_invariant": "Delivered held on every representative",
        "runs_on_real_codec": sum(i.get("runs", 0) for _, i in logs)}
    if len(fmts) < 4:
        raise ToolError("S2 generation %s: not every header format was generated: %s" % (mod, fmts))
    return logs


def check_C01(tier):
    out = Outcome("C01", tier, "model_checking")
    wd = vlib.workdir("C01")
    r = vlib.model_check("MC_Chunk.tla", "MC_Chunk_lib.cfg", wd, need_actions=["SendData", "SendSetCS", "Cont"])
    out.add_s1(r, "MC_Chunk_lib (library policy refines the legal sender; reference receiver delivers exactly)")
    if tier == "thorough":
        r = vlib.model_check("MC_Chunk.tla", "MC_Chunk_quick.cfg", wd)
        out.add_s1(r, "MC_Chunk_quick (any legal sender)")
        r = vlib.model_check("MC_Chunk.tla", "MC_Chunk_lib3.cfg", wd, workers=12, timeout=3000)
        out.add_s1(r, "MC_Chunk_lib3 (library policy, THREE messages: format 3 after a delta established by the second message)")
    logs = chunk_logs(wd, "ser_fixed", tier) + chunk_logs(wd, "big", tier) + chunk_gen_logs(out, wd, tier)
    # the pure self-consistency oracle: no parsing; library output vs. the intended messages
    chunk_validate(out, logs, wd, False, False,
                   lambda v: is_des(v) or (is_ser(v) and "empty packet" in v["why"]), "c01")
    s5(out, "Trace_Chunk.tla", dict(REAL, AllowDrops=False, CheckWire=False), logs[0][0], "chunk_feed", wd)
    sample_events(out, logs[0][0], ("Ser", "Feed"))
    out.assumptions = CHUNK_ASSUME
    return out.finish(rule="library serializer -> library deserializer over generated message sequences "
                           "(boundary tables for timestamps, lengths relative to the chunk size, chunk sizes, all flag "
                           "combinations, in-band size changes), each stream under two partitions; oracle: the messages "
                           "returned by each input call are exactly the intended messages whose last byte that call delivered")


def check_C07(tier):
    out = Outcome("C07", tier, "model_checking")
    wd = vlib.workdir("C07")
    r = vlib.model_check("MC_Chunk.tla", "MC_Chunk_lib.cfg", wd, need_actions=["SendData", "SendSetCS", "Cont"])
    out.add_s1(r, "MC_Chunk_lib")
    r = vlib.model_check("MC_Wire.tla", "MC_Wire.cfg", wd, workers=4)
    out.add_s1(r, "MC_Wire (ChunkWire reads back field-by-field encodings; every strict prefix is 'need more'; csid minimality)")
    logs = chunk_logs(wd, "ser_all", tier) + chunk_logs(wd, "ser_fixed", tier, shards=4) + chunk_logs(wd, "big", tier) + chunk_gen_logs(out, wd, tier)
    chunk_validate(out, logs, wd, False, True, is_ser, "c07")
    s5(out, "Trace_Chunk.tla", dict(REAL, AllowDrops=False, CheckWire=True), logs[0][0], "chunk_wire", wd)
    sample_events(out, logs[0][0], ("Ser",))
    out.assumptions = CHUNK_ASSUME
    return out.finish(rule="every packet the library serializer returned is parsed byte by byte by ChunkWire (RTMP 5.3.1 "
                           "layout) and fed to the reference receiver; each decoded header and payload slice must equal "
                           "the message the packet was produced for")


def check_C08(tier):
    out = Outcome("C08", tier, "model_checking")
    wd = vlib.workdir("C08")
    r = vlib.model_check("MC_Chunk.tla", "MC_Chunk_quick.cfg", wd, need_actions=["SendData", "SendSetCS", "Cont"])
    out.add_s1(r, "MC_Chunk_quick (drops, droppable rule on)")
    r = vlib.model_check("MC_Chunk.tla", "MC_Chunk_nodrop.cfg", wd, expect_violation="DeliveredExact")
    out.cov["negative_control"] = "without the droppable rule TLC finds a counterexample (%d states)" % r["distinct"]
    glogs = chunk_gen_logs(out, wd, tier)
    logs_all = chunk_logs(wd, "ser_all", tier) + glogs
    res = chunk_validate(out, logs_all, wd, True, True, is_ser, "c08all")
    out.cov["drop_branch_states"] = sum(x["distinct"] for x in res)
    logs_fx = chunk_logs(wd, "ser_fixed", tier) + glogs
    chunk_validate(out, logs_fx, wd, False, False, is_des, "c08fx")
    sample_events(out, logs_all[0][0], ("Ser",))
    out.assumptions = CHUNK_ASSUME
    return out.finish(rule="(a) reference receiver over the library's packets with every droppable packet "
                           "nondeterministically kept or skipped: TLC explores all 2^k subsets per run; (b) the library's "
                           "own deserializer on sampled subsets (none/all/alternating/random) against the intent")


def check_C06(tier):
    out = Outcome("C06", tier, "model_checking")
    wd = vlib.workdir("C06")
    r = vlib.model_check("MC_Chunk.tla", "MC_Chunk_quick.cfg", wd, need_actions=["SendData", "SendSetCS", "Cont"])
    out.add_s1(r, "MC_Chunk_quick (any legal sender x reference receiver)")
    if tier == "thorough":
        r = vlib.model_check("MC_Chunk.tla", "MC_Chunk_deep.cfg", wd, workers=12, timeout=3400)
        out.add_s1(r, "MC_Chunk_deep (any legal sender, THREE messages: 4.0 M distinct states)")
    # (the big streams are library-made - a conformant sender by C07 - with chunk sizes up to 2^31-1 and 16 MiB messages)
    logs = chunk_logs(wd, "foreign", tier) + chunk_gen_logs(out, wd, tier, side="rx") + chunk_logs(wd, "big", tier)
    chunk_validate(out, logs, wd, False, True, is_des, "c06")
    sample_events(out, logs[0][0], ("Chunk", "Feed"))
    out.assumptions = CHUNK_ASSUME + ["three-way agreement: harness intent = TLA+ reference receiver = library output "
                                      "(a harness encoding error is a tool error, not a violation)"]
    return out.finish(rule="foreign chunk streams written field by field (1/2/3-byte csids incl. non-minimal form, "
                           "every legal format per message, extended timestamps, zero-length messages, in-band size "
                           "changes), fed to the library deserializer under two partitions each")


def check_C16(tier):
    out = Outcome("C16", tier, "model_checking")
    wd = vlib.workdir("C16")
    r = vlib.model_check("MC_Chunk.tla", "MC_Chunk_il.cfg", wd, need_actions=["SendData", "SendSetCS", "Cont"])
    out.add_s1(r, "MC_Chunk_il (interleaving, per-csid reassembly)")
    r = vlib.model_check("MC_Chunk.tla", "MC_Chunk_shared.cfg", wd, expect_violation="DeliveredExact", workers=4)
    out.cov["negative_control"] = "one partial buffer shared by all chunk streams (the library's structure before finding F10 was repaired) violates DeliveredExact at design level"
    logs = chunk_logs(wd, "interleaved", tier) + chunk_gen_logs(out, wd, tier, side="rx")
    chunk_validate(out, logs, wd, False, True, is_des, "c16")
    sample_events(out, logs[0][0], ("Chunk", "Feed"))
    out.assumptions = CHUNK_ASSUME
    return out.finish(rule="multi-chunk messages on 2-4 distinct csids with randomly interleaved chunks, harness-encoded, "
                           "validated by the reference receiver, fed to the library deserializer")


# ------------------------------------------------------------------------------------------------
# AMF0

def amf_logs(wd, kind, tier, shards=4):
    vlib.build_harness()

    def gen(i):
        path = os.path.join(wd, "amf_%s_%d.ndjson" % (kind, i))
        p = vlib.harness(["amf", kind, i, shards, "--tier", tier, "--seed", vlib.seed(), "--out", path])
        return path, vlib.last_json(p.stdout)
    return vlib.parallel([(lambda i=i: gen(i)) for i in range(shards)], nproc=8)


def amf_validate(out, logs, wd, take, tag):
    res = vlib.parallel([(lambda pth=pth: vlib.validate_trace("Trace_Amf0.tla", pth, wd, {},
                                                               name=tag + "_" + os.path.basename(pth).replace(".ndjson", "")))
                         for pth, _ in logs], nproc=8)
    for (pth, info), r in zip(logs, res):
        out.add_trace(r, runs=info.get("runs", 0))
        r["verdicts"] = [v for v in r["verdicts"] if v["class"] == "TOOL" or take(v)]
        out.verdicts(r)


AMF_ASSUME = ["Amf0.tla is a faithful reading of the AMF0 specification (checked against itself exhaustively on a small universe by MC_Amf0)",
              "the harness logger; TLC; ndJsonDeserialize"]


def amf_gen_logs(out, wd, tier):
    """S2 for AMF0: TLC enumerates a universe of value sequences (Gen_Amf0.tla), checks the reference codec on each and
    prints each reference encoding; the harness runs every encoding, every strict prefix and bad-marker variants through
    the real decoder and re-encodes the decoded values with the real encoder."""
    cfg = os.path.join(wd, "Gen_Amf0_%s.cfg" % tier)
    vlib.write_cfg(cfg, spec="GenSpec", constants={"Deep": True, "Deeper": tier != "quick"},
                   invariants=["RoundTrip", "PrefixOK", "BadMarker", "AllRepresentable", "Emit"])
    r = vlib.tlc("Gen_Amf0.tla", cfg, wd, workers=4, timeout=900, xss="256m", xmx="6g")
    if r.get("timeout") or not r["completed"] or r["violated"]:
        log(r["out"][-2000:])
        raise ToolError("S2 generation Gen_Amf0 failed (%s)" % (r["violated"] or "incomplete"))
    encs = [json.loads(line)[len("@@AMF|"):] for line in r["out"].splitlines() if line.startswith('"@@AMF|')]
    efile = os.path.join(wd, "Gen_Amf0.enc.ndjson")
    with open(efile, "w") as f:
        f.write("\n".join(encs) + "\n")
    vlib.build_harness()
    shards = 4

    def gen(i):
        path = os.path.join(wd, "amf_gen_%d.ndjson" % i)
        q = vlib.harness(["amf", "gen", i, shards, efile, "--out", path])
        return path, vlib.last_json(q.stdout)
    logs = vlib.parallel([(lambda i=i: gen(i)) for i in range(shards)], nproc=4)
    out.cov["s2"] = {"model": "Gen_Amf0", "universe": r["distinct"], "encodings_replayed": len(encs),
                     "design_invariants": "RoundTrip, PrefixOK, BadMarker held on the whole universe",
                     "cases_on_real_codec": sum(i.get("cases", 0) for _, i in logs)}
    if len(encs) < 500:
        raise ToolError("S2 generation Gen_Amf0: too few encodings (%d)" % len(encs))
    return logs


def check_C04(tier):
    out = Outcome("C04", tier, "model_checking")
    wd = vlib.workdir("C04")
    r = vlib.model_check("MC_Amf0.tla", "MC_Amf0_deep.cfg" if tier == "thorough" else "MC_Amf0_quick.cfg", wd)
    out.add_s1(r, "MC_Amf0 (reference Enc/Dec round trip, small universe, exhaustive)")
    logs = amf_logs(wd, "enc", tier) + amf_gen_logs(out, wd, tier)
    # RT = decode(encode(v)) = v; ENC "cannot express" = encoding succeeded with bytes that cannot decode to v
    amf_validate(out, logs, wd, lambda v: v["class"] == "RT" or (v["class"] == "ENC" and "cannot express" in v["why"]), "c04")
    s5(out, "Trace_Amf0.tla", {}, logs[0][0], "amf", wd)
    sample_events(out, logs[0][0], ("Enc",))
    out.assumptions = AMF_ASSUME
    return out.finish(rule="library serialize then library deserialize over directed boundary values (all special f64 bit "
                           "patterns, string/name lengths 0..70000, nesting to 16, 0/1/n-element containers) and seeded "
                           "random value sequences; compared by value in TLA+ (numbers bitwise, objects as maps)")


def check_C12(tier):
    out = Outcome("C12", tier, "model_checking")
    wd = vlib.workdir("C12")
    r = vlib.model_check("MC_Amf0.tla", "MC_Amf0_deep.cfg" if tier == "thorough" else "MC_Amf0_quick.cfg", wd)
    out.add_s1(r, "MC_Amf0")
    logs = amf_logs(wd, "enc", tier) + amf_gen_logs(out, wd, tier) + amf_logs(wd, "dec", tier)
    amf_validate(out, logs, wd, lambda v: v["class"] in ("ENC", "DEC"), "c12")
    sample_events(out, logs[-1][0], ("Dec",), n=3)
    out.assumptions = AMF_ASSUME
    return out.finish(rule="encoder direction: the TLA+ reference decoder must read the library's bytes back as the value; "
                           "decoder direction: harness-made reference encodings (all property orders, ECMA arrays with any "
                           "count, every boolean byte, all 256 markers at three positions, every truncation point) must "
                           "decode to what the reference decoder says / be rejected / satisfy TruncRel")


# ------------------------------------------------------------------------------------------------
# RTMP messages

def check_C13(tier):
    out = Outcome("C13", tier, "model_checking")
    wd = vlib.workdir("C13")
    r = vlib.model_check("MC_Msg.tla", "MC_Msg.cfg", wd, workers=4)
    out.add_s1(r, "MC_Msg (RtmpMsg layouts: sound, injective, aliases, size bound; boundary field values)")
    r = vlib.model_check("MC_Amf0.tla", "MC_Amf0_quick.cfg", wd)
    out.add_s1(r, "MC_Amf0 (the AMF0 reference used for command/data bodies)")
    vlib.build_harness()
    shards = 4

    def gen(i):
        path = os.path.join(wd, "msg_%d.ndjson" % i)
        p = vlib.harness(["msg", i, shards, "--tier", tier, "--seed", vlib.seed(), "--out", path])
        return path, vlib.last_json(p.stdout)
    logs = vlib.parallel([(lambda i=i: gen(i)) for i in range(shards)], nproc=8)
    # S2: TLC enumerates a universe of well-formed messages (Gen_Msg.tla) and prints each reference body
    cfg = os.path.join(wd, "Gen_Msg.cfg")
    vlib.write_cfg(cfg, spec="GenSpec", invariants=["Sound", "Aliases", "Emit"])
    g = vlib.tlc("Gen_Msg.tla", cfg, wd, workers=4, timeout=900, xss="512m", xmx="6g")
    if g.get("timeout") or not g["completed"] or g["violated"]:
        log(g["out"][-2000:])
        raise ToolError("S2 generation Gen_Msg failed (%s)" % (g["violated"] or "incomplete"))
    msgs = [json.loads(line)[len("@@MSG|"):] for line in g["out"].splitlines() if line.startswith('"@@MSG|')]
    mfile = os.path.join(wd, "Gen_Msg.ndjson")
    with open(mfile, "w") as f:
        f.write("\n".join(msgs) + "\n")

    def gen2(i):
        path = os.path.join(wd, "msg_gen_%d.ndjson" % i)
        p = vlib.harness(["msg", "gen", i, shards, mfile, "--out", path])
        return path, vlib.last_json(p.stdout)
    glogs = vlib.parallel([(lambda i=i: gen2(i)) for i in range(shards)], nproc=8)
    out.cov["s2"] = {"model": "Gen_Msg", "universe": g["distinct"], "bodies_replayed": len(msgs),
                     "design_invariants": "Sound, Aliases held on the whole universe",
                     "cases_on_real_code": sum(i.get("cases", 0) for _, i in glogs)}
    if len(msgs) < 300:
        raise ToolError("S2 generation Gen_Msg: too few messages (%d)" % len(msgs))
    logs = logs + glogs
    res = vlib.parallel([(lambda pth=pth: vlib.validate_trace("Trace_Msg.tla", pth, wd, {})) for pth, _ in logs], nproc=8)
    for (pth, info), r in zip(logs, res):
        out.add_trace(r, runs=info.get("runs", 0))
        out.verdicts(r)
    s5(out, "Trace_Msg.tla", {}, logs[0][0], "msg", wd)
    sample_events(out, logs[0][0], ("ToPayload", "ToMessage"), n=3)
    out.assumptions = ["RtmpMsg.tla as a faithful reading of RTMP 1.0 sections 5.4/6.2/7.1", "Amf0.tla", "TLC; harness logger"]
    return out.finish(rule="every message variant x u32 boundary table x all 9 user-control events x 3 limit types, AMF0 "
                           "argument lists, audio/video bodies 0..70000 bytes, all 256 type ids; both directions; the body "
                           "layout and type id are judged by RtmpMsg.tla")


# ------------------------------------------------------------------------------------------------
# sessions

def sess_logs(wd, suite, kind, tier, shards=8):
    vlib.build_harness()

    def gen(i):
        path = os.path.join(wd, "%s_%s_%d.ndjson" % (suite, kind, i))
        p = vlib.harness([suite, kind, i, shards, "--tier", tier, "--seed", vlib.seed(), "--out", path])
        return path, vlib.last_json(p.stdout)
    return vlib.parallel([(lambda i=i: gen(i)) for i in range(shards)], nproc=8)


def sess_validate(out, module, logs, wd, take, tag):
    res = vlib.parallel([(lambda pth=pth: vlib.validate_trace(module, pth, wd, {"Base": 65536},
                                                               name=tag + "_" + os.path.basename(pth).replace(".ndjson", "")))
                         for pth, _ in logs], nproc=8)
    drift = 0
    for (pth, info), r in zip(logs, res):
        out.add_trace(r, runs=info.get("runs", 0))
        out.cov["calls_driven"] = out.cov.get("calls_driven", 0) + info.get("steps", 0)
        drift += len([v for v in r["verdicts"] if v["class"] in ("PROBE", "SHAPE")])
        r["verdicts"] = [v for v in r["verdicts"] if v["class"] == "TOOL" or take(v)]
        out.verdicts(r)
    out.cov["spec_drift"] = out.cov.get("spec_drift", 0) + drift
    return res


SESS_ASSUME = ["session logs at message level: inbound messages are encoded and returned packets decoded by the library's own "
               "chunk/message codec (judged separately by C06/C07/C13; C18 re-checks the returned bytes without that trust)",
               "the read-only probe hook reports the session's state faithfully", "TLC; harness logger"]


def skeleton_logs(out, wd, side, tier):
    """S2: TLC prints every transition of the small session model; a transition-covering set of input paths is
    replayed on the real session (fresh ids re-bound to what the real session hands out)."""
    mod = "Gen_Server" if side == "server" else "Gen_Client"
    # quick: the server uses three request ids (connect + two requests on the same stream) on one message stream
    cfg = os.path.join(vlib.SPEC, mod + ("_mid.cfg" if tier == "quick" else "_big.cfg"))
    if not os.path.exists(cfg):
        cfg = os.path.join(vlib.SPEC, mod + ".cfg")
    r = vlib.tlc(mod + ".tla", cfg, wd, workers=1, timeout=1200, xss="64m", xmx="8g")
    if not r["completed"] or r["violated"]:
        log(r["out"][-2000:])
        raise ToolError("S2 generation %s failed" % mod)
    raw = os.path.join(wd, mod + ".edges")
    with open(raw, "w") as f:
        f.write(r["out"])
    paths = os.path.join(wd, mod + ".paths.json")
    import subprocess
    p = subprocess.run(["python3", os.path.join(vlib.VERIF, "lib", "gen_skeletons.py"), raw, paths, "40"], stdout=subprocess.PIPE, text=True)
    info = json.loads(p.stdout.strip().splitlines()[-1])
    os.remove(raw)
    vlib.build_harness()
    shards = 8

    def gen(i):
        path = os.path.join(wd, "skel_%s_%d.ndjson" % (side, i))
        q = vlib.harness(["skel", side, i, shards, paths, "--out", path])
        return path, vlib.last_json(q.stdout)
    logs = vlib.parallel([(lambda i=i: gen(i)) for i in range(shards)], nproc=8)
    out.cov["s2"] = {"model": mod, "model_states": info["states"], "model_transitions": info["transitions"],
                     "covering_paths": info["paths"], "steps_replayed_on_real_session": sum(i.get("steps", 0) for _, i in logs)}
    return logs


def check_C09(tier):
    out = Outcome("C09", tier, "model_checking")
    wd = vlib.workdir("C09")
    r = vlib.model_check("MC_Server.tla", "MC_Server_full.cfg" if tier == "quick" else "MC_Server_big.cfg", wd, timeout=1500)
    out.add_s1(r, "MC_Server (every history over the small alphabet; history variables restate C09; no depth bound)")
    logs = sess_logs(wd, "server", "hist", tier) + skeleton_logs(out, wd, "server", tier)
    sess_validate(out, "Trace_Server.tla", logs, wd, lambda v: v["class"] == "SRV", "c09")
    s5(out, "Trace_Server.tla", {"Base": 65536}, logs[0][0], "server", wd)
    sample_events(out, logs[0][0], ("In", "Call"), n=3)
    out.assumptions = SESS_ASSUME
    return out.finish(rule="random histories (5-40 steps after a warm-up of random depth) over every inbound message class "
                           "(well-formed and malformed argument lists) and every application call with valid, stale and "
                           "never-issued ids, on the real ServerSession; each call judged by SrvStep")


def check_C10(tier):
    out = Outcome("C10", tier, "model_checking")
    wd = vlib.workdir("C10")
    r = vlib.model_check("MC_Client.tla", "MC_Client_full.cfg" if tier == "quick" else "MC_Client_big.cfg", wd, timeout=1500)
    out.add_s1(r, "MC_Client (every history over the small alphabet; observation-driven history state restates C10)")
    logs = sess_logs(wd, "client", "hist", tier) + skeleton_logs(out, wd, "client", tier)
    sess_validate(out, "Trace_Client.tla", logs, wd, lambda v: v["class"] == "CLI", "c10")
    s5(out, "Trace_Client.tla", {"Base": 65536}, logs[0][0], "client", wd)
    sample_events(out, logs[0][0], ("In", "Call"), n=3)
    out.assumptions = SESS_ASSUME
    return out.finish(rule="random histories over every public call in every state and every server message class (results/errors "
                           "with current, stale and never-issued transaction ids, with/without stream id; onStatus known/unknown/"
                           "malformed; media on the active or another stream), on the real ClientSession; each call judged by CliStep")


def check_C18(tier):
    out = Outcome("C18", tier, "model_checking")
    wd = vlib.workdir("C18")
    r = vlib.model_check("MC_Chunk.tla", "MC_Chunk_quick.cfg", wd)
    out.add_s1(r, "MC_Chunk_quick (drops; the receiver that judges the session bytes)")
    logs = sess_logs(wd, "server", "wire", tier) + sess_logs(wd, "client", "wire", tier)
    wires = [(pth + ".wire", info) for pth, info in logs]
    # (a) byte level: every returned packet, in returned order, under every drop subset, must decode to the
    #     message the session asked its serializer to encode for that packet
    res = chunk_validate(out, wires, wd, True, True, is_ser, "c18")
    out.cov["packets_returned"] = sum(i.get("packets", 0) for _, i in logs)
    out.cov["packets_serialized_but_never_returned"] = sum(i.get("lost", 0) for _, i in logs)
    out.cov["drop_branch_states"] = sum(x["distinct"] for x in res)
    # (b) message level: decodable by the peer, droppable mark only on media
    sess_validate(out, "Trace_Server.tla", [x for x in logs if "server_" in x[0]], wd, lambda v: v["class"] == "WIRE", "c18s")
    sess_validate(out, "Trace_Client.tla", [x for x in logs if "client_" in x[0]], wd, lambda v: v["class"] == "WIRE", "c18c")
    sample_events(out, wires[0][0], ("Ser",), n=2)
    out.assumptions = CHUNK_ASSUME + ["serializer tap hook: the header/payload a session handed to its serializer for each packet",
                                      "clock hook: the session uptime is set before each call from a schedule crossing 2^24 and 2^32 ms"]
    return out.finish(rule="C09/C10 histories extended with media sends on both real sessions, every configuration class, session "
                           "uptime scheduled across 2^24-1/2^24/2^32-1/2^32 ms with equal/+1/huge/backward steps; all returned "
                           "packets concatenated in returned order and parsed by the TLA+ reference receiver under ALL subsets of "
                           "dropped droppable packets")


def check_C02(tier):
    out = Outcome("C02", tier, "model_checking")
    wd = vlib.workdir("C02")
    r = vlib.model_check("MC_Interop.tla", "MC_Interop.cfg", wd, timeout=1200, workers=4)
    out.add_s1(r, "MC_Interop publish (ClientSession || ServerSession || two FIFO message channels || accepting application; safety + liveness)")
    r = vlib.model_check("MC_Interop.tla", "MC_Interop_play.cfg", wd, timeout=1200, workers=4)
    out.add_s1(r, "MC_Interop play")
    r = vlib.model_check("MC_AckStorm.tla", "MC_AckStorm.cfg", wd, workers=2)
    out.add_s1(r, "MC_AckStorm (two acknowledging sides, all window pairs 1..12: the exchange falls silent iff one window exceeds the "
                  "size of an acknowledgement; justifies that the driver does not wait for silence when both windows are tiny)")
    logs = sess_logs(wd, "interop", "x", tier)
    res = vlib.parallel([(lambda pth=pth: vlib.validate_trace("Trace_Interop.tla", pth, wd, {})) for pth, _ in logs], nproc=8)
    for (pth, info), r in zip(logs, res):
        out.add_trace(r, runs=info.get("runs", 0))
        out.cov["items_sent"] = out.cov.get("items_sent", 0) + info.get("steps", 0)
        out.verdicts(r)
    s5(out, "Trace_Interop.tla", {}, logs[0][0], "interop", wd)
    sample_events(out, logs[0][0], ("Start", "Send", "Recv", "Mark"), n=4)
    out.assumptions = ["the scheduler delivers bytes in order per direction (TCP); scenario steps are triggered by events", "TLC; harness logger",
                       "the message-level model has no bytes: 'any fragmentation' at model level rests on C15; the real runs do fragment"]
    return out.finish(rule="two real sessions back to back: publish or play, chunk size in {1,2,128,4096,65536,2^31-1} per side, windows "
                           "{1,100,4096,2^20,2^32-1} (never both small), bw-done on/off, uptime offsets across 2^24/2^32, 0..7 items (payload "
                           "0..70000, boundary timestamps, all metadata field combinations), whole/1-byte/boundary/random fragmentation "
                           "with random interleaving of the two directions; item-level FIFO exactly-once oracle in TLA+")


def check_C15(tier):
    out = Outcome("C15", tier, "model_checking")
    wd = vlib.workdir("C15")
    r = vlib.model_check("MC_Staged.tla", "MC_Staged.cfg", wd, workers=4)
    out.add_s1(r, "MC_Staged (staged parser: every partition reaches the one-shot state)")
    r = vlib.model_check("MC_Staged.tla", "MC_Staged_eager.cfg", wd, workers=4, expect_violation="PartitionIndependent")
    out.cov["negative_control"] = "a stage that consumes a partial field violates PartitionIndependent"
    # valid streams: each stream is fed under two partitions; both logs must be accepted by the deterministic oracle
    logs = (chunk_logs(wd, "ser_fixed", tier, shards=4) + chunk_logs(wd, "foreign", tier, shards=4) + chunk_logs(wd, "interleaved", tier, shards=2)
            + chunk_gen_logs(out, wd, tier, side="rx"))
    chunk_validate(out, logs, wd, False, False, is_des, "c15v")
    # any stream (valid, mutated, invalid): relational check of two partitions on two fresh instances
    plogs = sess_logs(wd, "pair", "x", tier)
    res = vlib.parallel([(lambda pth=pth: vlib.validate_trace("Trace_Pair.tla", pth, wd, {})) for pth, _ in plogs], nproc=8)
    for (pth, info), r in zip(plogs, res):
        out.add_trace(r, runs=2 * info.get("runs", 0))
        out.cov["stream_pairs"] = out.cov.get("stream_pairs", 0) + info.get("runs", 0)
        out.verdicts(r)
    with open(plogs[0][0]) as f:
        e = json.loads(f.readline())
        out.sample({"kind": e["kind"], "mutated": e["mutated"], "pa": e["pa"], "pb": e["pb"], "a_err": e["a"]["err"], "b_err": e["b"]["err"],
                    "results_a": len(e["a"]["outs"]), "results_b": len(e["b"]["outs"])})
    out.assumptions = ["session comparisons project away acknowledgements (call-dependent by definition, C17); wall-clock timestamps are pinned by the clock hook",
                       "when a session call fails, results of earlier messages of that call cannot be returned: 'agrees on everything delivered before' is read as prefix-compatible",
                       "TLC; harness logger"]
    return out.finish(rule="(a) library-made, foreign and interleaved valid streams, each under two partitions (one-shot/per-packet vs random/"
                           "header cuts/byte-wise), both judged by the deterministic Trace_Chunk oracle; (b) valid and mutated (1-3 bit flips/"
                           "deletions/insertions/truncations) streams fed to two fresh deserializers / server sessions (5 pre-states) / client "
                           "sessions (9 pre-states) under two partitions, compared by Trace_Pair")


def check_C17(tier):
    out = Outcome("C17", tier, "model_checking")
    wd = vlib.workdir("C17")
    r = vlib.model_check("AckFlat.tla", "AckFlat_tlc.cfg", wd)
    out.add_s1(r, "AckFlat (TLC, windows 1..6, call sizes 0..8)")
    a1 = vlib.apalache("AckFlatApa.tla", wd, ["--cinit=CInit", "--init=Init", "--inv=Inv", "--next=NextSym", "--length=0"])
    a2 = vlib.apalache("AckFlatApa.tla", wd, ["--cinit=CInit", "--init=IndInit", "--inv=Inv", "--next=NextSym", "--length=1"])
    out.cov["apalache"] = {"inductive_invariant": "Inv (Conservation, Outstanding, ExactlyWhen, NothingBefore) for all windows "
                           "1..2^32-1 and all call sizes: Init => Inv and Inv /\\ Next => Inv'", "wall_s": round(a1["wall"] + a2["wall"], 1)}
    t1 = vlib.tlaps(["AckFlat.tla", "AckFlatProof.tla"], "AckFlatProof.tla", wd)
    t2 = {"wall": 0.0} if tier == "quick" else vlib.tlaps(["AckFlat.tla", "AckFlatProof.tla"], "AckFlatProof.tla", wd,
                    mutate=("AckFlat.tla", "THEN emitted' = pend + n /\\ pend' = 0 /\\ acked' = acked + pend + n",
                            "THEN emitted' = pend + n /\\ pend' = pend + n - win /\\ acked' = acked + pend + n"))
    out.cov["tlaps"] = {"theorem": "Spec => []Inv for every modulus M > 1 and every call-size bound (deductive, SMT back end)",
                        "obligations_proved": t1["obligations"], "negative_control": "window subtracted instead of reset: proof fails" if tier != "quick" else "thorough tier only",
                        "wall_s": round(t1["wall"] + t2["wall"], 1)}
    logs = sess_logs(wd, "server", "ack", tier) + sess_logs(wd, "client", "ack", tier)
    sess_validate(out, "Trace_Server.tla", [x for x in logs if "server_" in x[0]], wd, lambda v: v["class"] == "ACK", "c17s")
    sess_validate(out, "Trace_Client.tla", [x for x in logs if "client_" in x[0]], wd, lambda v: v["class"] == "ACK", "c17c")
    s5(out, "Trace_Server.tla", {"Base": 65536}, logs[0][0], "ack", wd)
    sample_events(out, logs[0][0], ("In",), n=3)
    out.assumptions = SESS_ASSUME + ["Apalache (SMT) and TLAPS (SMT back end) for the unbounded inductive step"]
    return out.finish(rule="both real sessions; windows {1,2,3,16,17,18,100,4096,4097,2^20,2^31,2^32-1}, re-announcements, call "
                           "sizes around the thresholds; every input call judged by AckStep (exactly one leading "
                           "acknowledgement carrying the byte count iff the window is reached)")


# ------------------------------------------------------------------------------------------------
# resources / robustness

def res_check(prop, tier, kind, classes, slack_k, rule, assumptions, shards=8):
    out = Outcome(prop, tier, "exploration")
    wd = vlib.workdir(prop)
    logs = sess_logs(wd, "res", kind, tier, shards=shards)
    consts = {"Factor": 256, "SlackK": slack_k, "LimitMs": 30000}
    res = vlib.parallel([(lambda pth=pth: vlib.validate_trace("Trace_Resource.tla", pth, wd, consts)) for pth, _ in logs], nproc=8)
    classes_seen = set()
    evals = 0
    for (pth, info), r in zip(logs, res):
        out.add_trace(r, runs=info.get("runs", 0))
        evals += info.get("runs", 0)
        r["verdicts"] = [v for v in r["verdicts"] if v["class"] in ("TOOL",) + classes]
        out.verdicts(r)
        with open(pth) as f:
            for line in f:
                if '"Return"' in line[:40] or '"ev":"Return"' in line:
                    e = json.loads(line)
                    if e.get("ev") == "Return":
                        classes_seen.add((e.get("class") or e.get("cfg") or "", e.get("state", ""), e.get("entry", ""), e.get("res")))
    out.cov["evaluations"] = evals
    out.cov["distinct_nontrivial"] = len(classes_seen)
    out.cov["children_died_or_hung"] = sum(i.get("died", 0) for _, i in logs)
    for _ in range(1):
        sample_events(out, logs[0][0], ("Call", "Return"), n=4)
    out.assumptions = assumptions
    return out, logs, rule


RES_ASSUME = ["the observation (the child process survives, the allocator counter, the wall clock) is a measurement made by the harness; "
              "the TLA+ specification contributes the allowed alphabet (no action for panic / death / timeout) and the envelope as an invariant",
              "overflow-checks and debug-assertions are enabled in the harness build, so an arithmetic wrap is a panic",
              "counting global allocator; RLIMIT_AS 12 GiB; 2 MiB decode thread stack"]


def check_C03(tier):
    out, logs, rule = res_check("C03", tier, "hostile", ("RES",), 48 * 1024 + 256,
        "state x malformed-class product: every session state (server 5, client 9) x ~700 hostile messages (commands with 0..3 values and "
        "every argument of every wrong type, @setDataFrame shapes, user-control bodies of every short length, control messages at "
        "their limits, AMF0 garbage, random bodies on random ids) in whole / 1-byte / random fragmentation; bare deserializer: header "
        "classes (shrinking length, extended delta below threshold, compressed header on unseen csid, many announced 16 MiB messages, "
        "zero-length fmt-3 runs) + seeded byte mutations of valid streams; message decoder; handshake garbage; distinct = (class, state, result)",
        RES_ASSUME)
    return out.finish(rule=rule)


def check_C14(tier):
    out, logs, rule = res_check("C14", tier, "amfdeep", ("RES",), 1024 + 256,
        "nesting skeletons = all words of length <= 3 over {strict-array header, object-property prefix, ECMA header} pumped to depths "
        "10 .. 10^6 (and length/5 for 16 MiB), lying count/length headers (0, 1, 2^31, 2^32-1; 65535 with 0..3 bytes following), flat "
        "one-byte-value inputs up to 1 MiB (16 MiB in thorough), seeded marker garbage; decoded AND dropped on a thread with a 2 MiB stack",
        RES_ASSUME)
    return out.finish(rule=rule)


def check_C19(tier):
    out, logs, rule = res_check("C19", tier, "config", ("RES", "CFG"), 48 * 1024 + 256,
        "class product: chunk size {0,1,2,127,128,129,4096,2^31-2,2^31-1,2^31,2^31+1,2^32-1} at every entry point (serializer, "
        "deserializer, both session configs, inbound SetChunkSize), window/bandwidth {0,1,2^31,2^32-1}, payload length around "
        "16,777,215, string/name length around 65,535, version strings; a refusal class must return an error, an accepted class must "
        "return ok and then still carry messages (round trip / ping echo / decodable media), all inside the time/memory envelope",
        RES_ASSUME + ["the 'still works' probe after an accepted value is a small round trip evaluated in the harness; the full C01/C02 "
                      "oracles run for the accepted boundary values in the C01/C02/C18 checks (chunk-size and window tables include them)"])
    out.cov["exhaustive"] = True
    return out.finish(rule=rule)


# ------------------------------------------------------------------------------------------------
# handshake

def hs_check(prop, tier, kind, cls, rule, level):
    out = Outcome(prop, tier, level)
    wd = vlib.workdir(prop)
    r = vlib.model_check("MC_Handshake.tla", "MC_Handshake.cfg", wd)
    out.add_s1(r, "MC_Handshake (two peers, every fragmentation and interleaving, P = 3, T = 2; safety + liveness under weak fairness)")
    r = vlib.model_check("MC_HandshakeLegacy.tla", "MC_HandshakeLegacy.cfg" if tier == "quick" else "MC_HandshakeLegacy_big.cfg", wd, workers=4,
                         need_actions=["LibGenerate", "LibDeliver", "LibTrailing", "PeerSend01", "PeerSend2", "PeerDeliver", "PeerTrailing"])
    out.add_s1(r, "MC_HandshakeLegacy (library stage machine x digest-less peer from the protocol description: active / passive / batching / "
                  "strict; bytes carry identity: echo, order and exactly-once on content; safety + liveness)")
    r = vlib.model_check("MC_HandshakeLegacy.tla", "MC_HandshakeLegacy_dead.cfg", wd, workers=2, expect_violation="Live")
    out.cov["negative_control_legacy"] = "two passive sides: TLC refutes Live"
    logs = sess_logs(wd, "hs", kind, tier)
    res = vlib.parallel([(lambda pth=pth: vlib.validate_trace("Trace_Handshake.tla", pth, wd, {"P": 1536})) for pth, _ in logs], nproc=8)
    for (pth, info), r in zip(logs, res):
        out.add_trace(r, runs=info.get("runs", 0))
        out.cov["process_calls"] = out.cov.get("process_calls", 0) + info.get("steps", 0)
        r["verdicts"] = [v for v in r["verdicts"] if v["class"] in ("TOOL", cls)]
        out.verdicts(r)
    return out, wd, logs


def check_C05(tier):
    out, wd, logs = hs_check("C05", tier, "flow", "HS", None, "model_checking")
    s5(out, "Trace_Handshake.tla", {"P": 1536}, logs[0][0], "hs", wd)
    sample_events(out, logs[0][0], ("Proc", "Gen"), n=3)
    out.assumptions = ["TLC; harness logger; the model counts bytes, the trace check compares handed-back bytes by value"]
    return out.finish(rule="real Handshake x real Handshake (either role, either or both sides starting) and real x harness-made "
                           "digest-less peer, under whole / boundary-table (1, 2, 511..513, 1535..1537, 3072..3074) / random / "
                           "1-byte fragmentation with random interleaving and 0..300 trailing bytes per side; every process call "
                           "judged by HsStep with P = 1536")


def check_C11(tier):
    out, wd, logs = hs_check("C11", tier, "digest", "DIG", None, "exploration")
    # how many of the 728 own offsets were seen, per scheme (measured from the logs)
    own = set()
    crafted = set()
    evals = 0
    for pth, _ in logs:
        with open(pth) as f:
            for line in f:
                if '"P1Facts"' in line:
                    e = json.loads(line)
                    evals += 1
                    if e["lib"]:
                        # the position the role's scheme selects in this packet (whether or not a valid digest sits there)
                        own.add((e["role"], (sum(e["ob"]) % 728) + 12 if e["role"] == "client" else (sum(e["ob2"]) % 728) + 776))
                    else:
                        crafted.add((e["role"], e["dpos"]))
                elif '"P2Facts"' in line:
                    evals += 1
    out.cov["evaluations"] = evals
    out.cov["distinct_nontrivial"] = len(own) + len(crafted)
    out.cov["own_packet1_digest_positions_seen"] = len(own)
    out.cov["received_packet1_digest_positions_exercised"] = len(crafted)
    # own packets: the fill hook is re-seeded until every one of the 728 offsets of each role's scheme has been generated once
    out.cov["own_offsets_exhaustive"] = len(own) >= 1456
    out.cov["exhaustive"] = False
    if len(own) < 1456 and not out.violations:
        raise ToolError("C11: the own-offset sweep did not reach all 2 x 728 digest positions (%d)" % len(own))
    sample_events(out, logs[0][0], ("P1Facts", "P2Facts"), n=3)
    out.assumptions = ["HMAC-SHA256 is an uninterpreted primitive for the specification: the harness' own implementation (FIPS 180-4 / RFC 2104, "
                       "self-checked against RFC 4231 vectors at start) supplies facts about it", "fill hook for deterministic own packets",
                       "TLC; harness logger"]
    return out.finish(rule="own packet 1: full brute-force digest scan of generated packets - the deterministic fill is re-seeded until "
                           "ALL 728 offsets of each role's scheme were generated (plus real random fill) - both roles; received packet 1: every one of the 728 offsets of both schemes "
                           "for both roles (plus high preimages), and digest-less packets; distinct = (role, digest position) pairs")


# ------------------------------------------------------------------------------------------------
# clock

def check_C20(tier):
    out = Outcome("C20", tier, "model_checking")
    wd = vlib.workdir("C20")
    r = vlib.model_check("MC_Clock.tla", "MC_Clock.cfg", wd)
    out.add_s1(r, "MC_Clock (limb arithmetic refines flat arithmetic modulo Base^2; clock laws; Base = 16, all 65536 pairs)")
    u1 = vlib.apalache("U32Apa.tla", wd, ["--cinit=CInit", "--init=Init", "--inv=Inv", "--length=0"])
    vlib.apalache("U32Apa.tla", wd, ["--cinit=CInit", "--init=Init", "--inv=NegControl", "--length=0"], expect_error=True)
    out.cov["apalache_u32"] = {"result": "the limb operators of U32 (used by every trace specification) agree with flat arithmetic modulo 2^32 and "
                               "satisfy the clock laws for ALL word pairs with Base = 65536; negative control (antipodal distance counted as later) is refuted",
                               "wall_s": round(u1["wall"], 1)}
    a = vlib.apalache("ClockFlatApa.tla", wd, ["--cinit=CInit", "--init=Init", "--inv=Inv", "--length=0"])
    out.cov["apalache"] = {"result": "Inv (AddSubInverse, ExactModulo, EqualIff, Antisymmetric, OrderOfSum, AgreesWithLater, "
                           "Antipodal) holds for ALL (a, d) in [0, 2^32)^2 for the transcription of time.rs", "wall_s": round(a["wall"], 1)}
    t1 = vlib.tlaps(["ClockFlat.tla", "ClockFlatProof.tla"], "ClockFlatProof.tla", wd)
    t2 = {"wall": 0.0} if tier == "quick" else vlib.tlaps(["ClockFlat.tla", "ClockFlatProof.tla"], "ClockFlatProof.tla", wd, timeout=900,
                    mutate=("ClockFlat.tla", "IN IF mx - mn <= H - 1 THEN plain ELSE -plain", "IN IF mx - mn <= H THEN plain ELSE -plain"))
    out.cov["tlaps"] = {"theorem": "Init => Inv: every clock law for every (a, d) in [0, 2^32)^2 (deductive, SMT back end; one theorem per law)",
                        "obligations_proved": t1["obligations"],
                        "negative_control": "threshold 2^31 instead of 2^31 - 1 in compare: proof fails" if tier != "quick" else "thorough tier only",
                        "wall_s": round(t1["wall"] + t2["wall"], 1)}
    vlib.build_harness()
    nsh = 1 if tier == "quick" else 8

    def gen(i):
        pth = os.path.join(wd, "clock_%d.ndjson" % i)
        q = vlib.harness(["clock", "--tier", tier, "--seed", vlib.seed() * 100 + i, "--out", pth])
        return pth, vlib.last_json(q.stdout)
    logs = vlib.parallel([(lambda i=i: gen(i)) for i in range(nsh)], nproc=8)
    res = vlib.parallel([(lambda pth=pth: vlib.validate_trace("Trace_Clock.tla", pth, wd, {"Base": 65536})) for pth, _ in logs], nproc=8)
    for (pth, info), r in zip(logs, res):
        out.add_trace(r, runs=info.get("runs", 0))
        out.verdicts(r)
    path = logs[0][0]
    s5(out, "Trace_Clock.tla", {"Base": 65536}, path, "clock", wd)
    sample_events(out, path, ("Clk",), n=2)
    out.assumptions = ["ClockFlat!Impl* is a faithful transcription of time.rs (bound to the code by the trace check on boundary pairs)",
                       "Apalache/Z3; tlapm (SMT back end); TLC; harness logger"]
    return out.finish(rule="boundary product {0,1,2,2^24-1,2^24,2^31-2..2^31+2,2^32-2,2^32-1,...}^2 taken both as (a,d) and as "
                           "(a,a+d), plus seeded random pairs biased to distances 2^31-2..2^31+1; every operator on the real "
                           "RtmpTimestamp (timestamp/timestamp, timestamp/u32, u32/timestamp) recomputed in TLA+")


def replay(path):
    """Re-validate a stored replay file: the events of the failing run go through the same trace specification again."""
    with open(path) as f:
        body = json.load(f)
    print(json.dumps({k: body[k] for k in body if k != "events"}, indent=1))
    evs = body.get("events", [])
    print("events of the failing run: %d (failing line in run: %s)" % (len(evs), body.get("failing_line_in_run")))
    mod = body.get("module")
    if not mod:
        return 0
    wd = vlib.workdir("replay")
    trace = os.path.join(wd, "replay.ndjson")
    with open(trace, "w") as f:
        for e in evs:
            f.write(json.dumps(e) + "\n")
    r = vlib.validate_trace(mod, trace, wd, body.get("constants") or {})
    for v in r["verdicts"]:
        print("VERDICT [%s] %s (line %d of the replayed run)" % (v["class"], v["why"], v["line"]))
    if not r["verdicts"]:
        print("the replayed run is accepted by %s" % mod)
    return 1 if r["verdicts"] else 0
