------------------------------ MODULE Trace_Pair ------------------------------
(***************************************************************************)
(* Relational trace validation for C15: the SAME byte stream was fed to    *)
(* two fresh instances (chunk deserializer, server session or client       *)
(* session, in the same pre-state) under two different partitions into     *)
(* input calls; a Pair event carries the two flattened result sequences    *)
(* and how each run ended.  For streams without a reference meaning        *)
(* (mutated / invalid ones) this relation IS the property.                 *)
(*   - no error in either: the result sequences must be equal              *)
(*   - otherwise both must end with the same kind of error; for the bare   *)
(*     deserializer (one message per call) everything before it must be    *)
(*     equal; for sessions, whose failing call cannot return what earlier  *)
(*     messages of that call produced, the two sequences must be           *)
(*     prefix-compatible                                                   *)
(* Acknowledgements are projected away (their placement is call-dependent  *)
(* by definition, C17).                                                    *)
(***************************************************************************)
EXTENDS Sequences, SequencesExt, TLC, Json, IOUtils

Rec == ndJsonDeserialize(IOEnv.TRACE)
NRec == Len(Rec)
VARIABLES l, fin
vars == <<l, fin>>
Ev == Rec[l]
Init == l = 1 /\ fin = FALSE
Say(class, why) == PrintT("@@VERDICT|" \o class \o "|" \o why \o "|" \o ToString(l))

NotAck(x) == ~("msg" \in DOMAIN x /\ x.msg.k = "Ack")
Proj(outs) == SelectSeq(outs, NotAck)

Check ==
    LET a == Proj(Ev.a.outs)  b == Proj(Ev.b.outs) IN
    IF Ev.a.err = "none" /\ Ev.b.err = "none" THEN
        IF a # b THEN Say("PAIR", "results differ between two partitions of the same stream (" \o Ev.kind \o ")") ELSE TRUE
    ELSE IF Ev.a.err # Ev.b.err THEN Say("PAIR", "partitions disagree on the error: " \o Ev.a.err \o " versus " \o Ev.b.err \o " (" \o Ev.kind \o ")")
    ELSE IF Ev.kind = "deser" THEN
        IF a # b THEN Say("PAIR", "partitions disagree on what was delivered before the error (deser)") ELSE TRUE
    ELSE IF ~(IsPrefix(a, b) \/ IsPrefix(b, a)) THEN Say("PAIR", "partitions contradict each other before the error (" \o Ev.kind \o ")")
    ELSE TRUE

Step == l <= NRec /\ (IF Ev.ev = "Pair" THEN Check ELSE TRUE) /\ l' = l + 1 /\ UNCHANGED fin
Finish == l = NRec + 1 /\ ~fin /\ fin' = TRUE /\ UNCHANGED l /\ PrintT("@@ACCEPT|" \o ToString(NRec) \o "|0")
Next == Step \/ Finish
Spec == Init /\ [][Next]_vars
=============================================================================
