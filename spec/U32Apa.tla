------------------------------- MODULE U32Apa -------------------------------
(***************************************************************************)
(* Apalache entry point for U32: with the REAL Base = 65536 (a domain of   *)
(* 2^64 pairs that TLC cannot enumerate) the limb operators used by every  *)
(* trace specification agree with flat arithmetic modulo 2^32, symbolically *)
(* for ALL words x, y.  Complements MC_Clock (TLC, Base = 16, exhaustive).  *)
(***************************************************************************)
EXTENDS U32, Integers

VARIABLES
    \* @type: <<Int, Int>>;
    x,
    \* @type: <<Int, Int>>;
    y

CInit == Base = 65536
Init == /\ x \in (0 .. 65535) \X (0 .. 65535)
        /\ y \in (0 .. 65535) \X (0 .. 65535)
Next == UNCHANGED <<x, y>>

\* @type: (<<Int, Int>>) => Int;
ToNat(w) == w[1] * Base + w[2]
MM == Base * Base

Refines == /\ ToNat(Add(x, y)) = (ToNat(x) + ToNat(y)) % MM
           /\ ToNat(Sub(x, y)) = (ToNat(x) - ToNat(y) + MM) % MM
           /\ (Lt(x, y) <=> ToNat(x) < ToNat(y))
           /\ Add(x, y)[1] \in 0 .. 65535 /\ Add(x, y)[2] \in 0 .. 65535
           /\ Sub(x, y)[1] \in 0 .. 65535 /\ Sub(x, y)[2] \in 0 .. 65535
Laws == /\ Sub(Add(x, y), y) = x /\ Add(Sub(x, y), y) = x
        /\ (Later(x, y) => ~Later(y, x))
        /\ (Later(x, y) <=> (ToNat(Sub(x, y)) >= 1 /\ ToNat(Sub(x, y)) <= 2147483647))
Inv == Refines /\ Laws
\* negative control (must be VIOLATED): the antipodal distance 2^31 counted as "later"
NegControl == Later(x, y) <=> (ToNat(Sub(x, y)) >= 1 /\ ToNat(Sub(x, y)) <= 2147483648)
=============================================================================
