SPECIFICATION GSpec
CONSTANTS
  ReqIds = {0,1,2}
  StreamIds = {1}
  Msids = {1}
  MaxSteps = 60
VIEW GView
ACTION_CONSTRAINT Dump
INVARIANT C09
CHECK_DEADLOCK FALSE
