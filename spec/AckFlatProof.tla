---------------------------- MODULE AckFlatProof ----------------------------
(***************************************************************************)
(* TLAPS proof that the acknowledgement invariant of AckFlat is inductive  *)
(* for EVERY modulus M > 1 and EVERY bound on call sizes - an independent   *)
(* (deductive) confirmation of what Apalache establishes symbolically for   *)
(* M = 2^32 and TLC exhaustively for M = 7.                                 *)
(***************************************************************************)
EXTENDS AckFlat, TLAPS

ASSUME Params == M \in Nat /\ M > 1 /\ MaxN \in Nat

THEOREM InitInv == Init => Inv
  BY Params DEF Init, Inv, TypeInv, Conservation, Outstanding, ExactlyWhen, NothingBefore

THEOREM StepInv == Inv /\ [Next]_vars => Inv'
<1> SUFFICES ASSUME Inv, [Next]_vars PROVE Inv'
  OBVIOUS
<1>1. CASE UNCHANGED vars
  BY <1>1 DEF vars, Inv, TypeInv, Conservation, Outstanding, ExactlyWhen, NothingBefore
<1>2. CASE Next
  <2>1. PICK n \in 0 .. MaxN, learn \in BOOLEAN, w \in 1 .. (M - 1) : Input(n, learn, w)
    BY <1>2 DEF Next
  <2>2. n \in Nat /\ w \in Nat /\ w >= 1 /\ w < M
    BY Params
  <2>3. CASE known
    <3>1. CASE pend + n >= win
      BY <2>1, <2>2, <2>3, <3>1, Params DEF Input, Inv, TypeInv, Conservation, Outstanding, ExactlyWhen, NothingBefore
    <3>2. CASE ~(pend + n >= win)
      BY <2>1, <2>2, <2>3, <3>2, Params DEF Input, Inv, TypeInv, Conservation, Outstanding, ExactlyWhen, NothingBefore
    <3> QED BY <3>1, <3>2
  <2>4. CASE ~known
    BY <2>1, <2>2, <2>4, Params DEF Input, Inv, TypeInv, Conservation, Outstanding, ExactlyWhen, NothingBefore
  <2> QED BY <2>3, <2>4
<1> QED BY <1>1, <1>2

THEOREM Safety == Spec => []Inv
  BY InitInv, StepInv, PTL DEF Spec
=============================================================================
