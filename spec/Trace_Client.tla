---------------------------- MODULE Trace_Client ----------------------------
(***************************************************************************)
(* Trace validation of the real ClientSession against ClientSession.tla    *)
(* (C10) and AckWindow.tla (C17).  Same log shape and the same comparison  *)
(* rules as Trace_Server: constrained events exactly, required outbound    *)
(* messages embedded in order, refusals return nothing and leave the probe *)
(* unchanged.  Verdict classes: CLI (C10), ACK (C17), PROBE (diagnostic).  *)
(***************************************************************************)
EXTENDS ClientSession, AckWindow, Amf0, Names, Json, IOUtils

Rec == ndJsonDeserialize(IOEnv.TRACE)
NRec == Len(Rec)

VARIABLES l, st, win, pend, prevProbe, dead, fin, cfg
vars == <<l, st, win, pend, prevProbe, dead, fin, cfg>>
Ev == Rec[l]

Init == l = 1 /\ st = CliInit /\ win = <<>> /\ pend = Zero /\ prevProbe = <<>> /\ dead = FALSE /\ fin = FALSE /\ cfg = <<>>

Say(class, why) == PrintT("@@VERDICT|" \o class \o "|" \o why \o "|" \o ToString(l))

Constrained == {"ConnAccepted", "ConnRejected", "PlaybackAccepted", "PublishAccepted", "Media", "Metadata", "UnknownTxn"}

Events(rs) == SelectSeq(rs, LAMBDA x : x.k = "event" /\ x.o \in Constrained)
\* informational results (not mentioned by the listed properties): which of them an input produces
InfoKinds == {"AckRecv", "PingRespRecv", "UnhandleableAmf0Command", "UnhandleableOnStatusCode"}
InfoOf(rs) == SelectSeq(rs, LAMBDA x : (x.k = "event" /\ x.o \in InfoKinds) \/ x.k = "unhandled")
InfoOK(i, rs) ==
    LET g == InfoOf(rs) IN
    CASE i.m = "ack"         -> Len(g) = 1 /\ g[1].k = "event" /\ g[1].o = "AckRecv" /\ g[1].v = i.v
      [] i.m = "pingresp"    -> Len(g) = 1 /\ g[1].k = "event" /\ g[1].o = "PingRespRecv" /\ g[1].ts = i.ts
      [] i.m = "unknowncmd"  -> Len(g) = 1 /\ g[1].k = "event" /\ g[1].o = "UnhandleableAmf0Command"
      [] i.m = "onStatus" /\ i.code = "other" -> Len(g) = 1 /\ g[1].k = "event" /\ g[1].o = "UnhandleableOnStatusCode"
      [] i.m = "unknowntype" -> Len(g) = 1 /\ g[1].k = "unhandled" /\ g[1].ty = i.ty
      [] i.m = "abort"       -> Len(g) = 1 /\ g[1].k = "unhandled" /\ g[1].ty = 2
      [] OTHER -> Len(g) = 0
IsAck(x)   == x.k = "out" /\ x.msg.k = "Ack"
Outs(rs)   == SelectSeq(rs, LAMBDA x : x.k = "out" /\ ~IsAck(x))
Acks(rs)   == SelectSeq(rs, LAMBDA x : IsAck(x))

StrIs(v, name) == v.t = "s" /\ BytesEq(v.s, Lit(name))
CmdIs(x, name) == x.msg.k = "Command" /\ BytesEq(x.msg.name, Lit(name))
HasProp(obj, name, val) == obj.t = "o" /\ \E k \in 1 .. Len(obj.p) : BytesEq(obj.p[k][1], Lit(name)) /\ StrIs(obj.p[k][2], val)
PType(p) == CASE p = "live" -> N_live [] p = "record" -> N_record [] p = "append" -> N_append

OutMatch(e, x) ==
    CASE e.o = "OutConnect"      -> CmdIs(x, N_connect) /\ x.txnnum = <<e.txn>> /\ HasProp(x.msg.obj, N_app, e.app) /\ x.msid = 0
      [] e.o = "OutCreateStream" -> CmdIs(x, N_createStream) /\ x.txnnum = <<e.txn>>
      [] e.o = "OutPlay"         -> CmdIs(x, N_play) /\ x.msid = e.sid /\ Len(x.msg.args) >= 1 /\ StrIs(x.msg.args[1], e.key)
      [] e.o = "OutPublish"      -> /\ CmdIs(x, N_publish) /\ x.msid = e.sid /\ Len(x.msg.args) >= 2
                                    /\ StrIs(x.msg.args[1], e.key) /\ StrIs(x.msg.args[2], PType(e.ptype))
      [] e.o = "OutDeleteStream" -> CmdIs(x, N_deleteStream) /\ x.arg0num = <<e.sid>>
      [] e.o = "OutMedia"        -> /\ x.msg.k = (IF e.kind = "publish_audio" THEN "Audio" ELSE "Video")
                                    /\ BytesEq(x.msg.data, Ev.i.data) /\ x.msid = e.sid /\ x.ts = e.ts /\ x.drop = e.drop
      [] e.o = "OutMetadata"     -> /\ x.msg.k = "Data" /\ Len(x.msg.vals) >= 3 /\ StrIs(x.msg.vals[1], N_setDataFrame)
                                    /\ StrIs(x.msg.vals[2], N_onMetaData) /\ x.msid = e.sid
      [] e.o = "OutPing"         -> x.msg.k = "UserControl" /\ x.msg.et = "PingRequest"
      [] e.o = "OutPingResponse" -> x.msg.k = "UserControl" /\ x.msg.et = "PingResponse" /\ x.msg.ts = <<e.ts>>
      [] e.o = "OutWinAck"       -> x.msg.k = "WinAck"
      [] e.o = "OutSetCS"        -> x.msg.k = "SetChunkSize"
      [] OTHER -> FALSE

\* the "requests" C10 speaks of: connect / createStream / play / publish / deleteStream commands and published media
\* ---- SHAPE diagnostics (beyond the listed properties; spec_drift only)
KindOf(x) ==
    IF x.msg.k = "UserControl" THEN "UC:" \o x.msg.et
    ELSE IF x.msg.k = "Command" THEN
        (IF CmdIs(x, N_connect) THEN "connect" ELSE IF CmdIs(x, N_createStream) THEN "createStream" ELSE IF CmdIs(x, N_play) THEN "play"
         ELSE IF CmdIs(x, N_publish) THEN "publish" ELSE IF CmdIs(x, N_deleteStream) THEN "deleteStream" ELSE "Command")
    ELSE x.msg.k
Kinds(outs) == [k \in 1 .. Len(outs) |-> KindOf(outs[k])]
ClockOK(outs, clk) == \A k \in 1 .. Len(outs) :
    outs[k].msg.k \in {"Audio", "Video", "SetChunkSize", "Undecodable"} \/ outs[k].ts = clk
\* what the usual reaction to an input consists of (only for the inputs listed)
UsualShape(obs) ==
    IF \E k \in 1 .. Len(obs) : obs[k].o = "ConnAccepted" THEN <<"WinAck", "SetChunkSize">>
    ELSE IF \E k \in 1 .. Len(obs) : obs[k].o = "OutPlay" THEN <<"UC:SetBufferLength", "play">>
    ELSE IF \E k \in 1 .. Len(obs) : obs[k].o = "OutPublish" THEN <<"publish">>
    ELSE IF \E k \in 1 .. Len(obs) : obs[k].o = "OutConnect" THEN <<"connect">>
    ELSE IF \E k \in 1 .. Len(obs) : obs[k].o = "OutCreateStream" THEN <<"createStream">>
    ELSE IF \E k \in 1 .. Len(obs) : obs[k].o = "OutDeleteStream" THEN <<"deleteStream">>
    ELSE <<"?">>
ShapeOK(obs, outs) ==
    LET u == UsualShape(obs) IN
    u = <<"?">> \/ (/\ Kinds(outs) = u
                     /\ (u = <<"WinAck", "SetChunkSize">> => outs[1].msg.v = cfg.win /\ outs[2].msg.v = <<cfg.cs \div 65536, cfg.cs % 65536>>)
                     /\ (u = <<"UC:SetBufferLength", "play">> => outs[1].msg.buf = <<cfg.buf>>))

IsRequest(x) ==
    \/ x.msg.k \in {"Audio", "Video"}
    \/ x.msg.k = "Command" /\ \E nm \in {N_connect, N_createStream, N_play, N_publish, N_deleteStream} : BytesEq(x.msg.name, Lit(nm))
    \/ x.msg.k = "Data" /\ Len(x.msg.vals) >= 1 /\ StrIs(x.msg.vals[1], N_setDataFrame)

\* the input an expected observation belongs to (see Trace_Server: batches)
Item(e) == IF "j" \in DOMAIN e THEN Ev.i.items[e.j] ELSE Ev.i

EvMatch(e, x) ==
    /\ e.o = x.o
    /\ CASE e.o = "Media" -> x.kind = e.kind /\ x.ts = e.ts /\ BytesEq(x.data, Item(e).data)
         [] e.o = "Metadata" -> x.meta = Item(e).meta
         [] OTHER -> TRUE

IsEventObs(e) == e.o \in Constrained
ExpEvents(obs) == SelectSeq(obs, IsEventObs)
ExpOuts(obs)   == SelectSeq(obs, LAMBDA e : ~IsEventObs(e) /\ e.o \notin {"Err", "NoEvent"})

RECURSIVE Embed(_, _, _, _)
Embed(exp, a, outs, b) ==
    IF a > Len(exp) THEN TRUE
    ELSE IF b > Len(outs) THEN FALSE
    ELSE IF OutMatch(exp[a], outs[b]) THEN Embed(exp, a + 1, outs, b + 1)
    ELSE Embed(exp, a, outs, b + 1)

FreshOf(i, rs) ==
    IF i.m \in {"request_connection", "request_playback", "request_publishing"} THEN
        LET S == SelectSeq(rs, LAMBDA x : x.k = "out" /\ x.msg.k = "Command" /\ x.txnnum # <<>>)
        IN IF Len(S) > 0 THEN S[1].txnnum[1] ELSE -1
    ELSE -1

StateName(s) == s
ProbeOK(p, s) ==
    /\ p.state = s.state
    /\ p.active = s.active
    /\ {p.txns[k].id : k \in 1 .. Len(p.txns)} = DOMAIN s.txns
    /\ \A k \in 1 .. Len(p.txns) : p.txns[k].id \in DOMAIN s.txns =>
            /\ p.txns[k].k = s.txns[p.txns[k].id].k /\ p.txns[k].key = s.txns[p.txns[k].id].key

Advance == l' = l + 1 /\ UNCHANGED fin

DoNew ==
    /\ st' = CliInit /\ win' = <<>> /\ pend' = Zero /\ prevProbe' = Ev.probe /\ dead' = FALSE
    /\ IF Ev.res # "ok" THEN Say("CLI", "session construction failed: " \o Ev.res) ELSE TRUE
    /\ cfg' = Ev.cfg
    /\ Advance

\* one input call that delivered several complete messages (see Trace_Server).  Not judged when the model refuses an item,
\* leaves an item's treatment open ("NoEvent": an error or silence are both fine) or the item is a malformed status.
RECURSIVE FoldCli(_, _, _)
FoldCli(s, items, k) ==
    IF k > Len(items) THEN [st |-> s, obs |-> <<>>, bad |-> FALSE]
    ELSE LET it   == [fresh |-> -1] @@ items[k]
             r    == CliStep(s, it)
             rest == FoldCli(r.st, items, k + 1)
         IN  [st |-> rest.st,
              obs |-> [n \in 1 .. Len(r.obs) |-> [j |-> k] @@ r.obs[n]] \o rest.obs,
              bad |-> rest.bad \/ r.obs = CErr \/ r.obs = <<[o |-> "NoEvent"]>> \/ (it.m = "onStatus" /\ it.code = "malformed")]

DoStep ==
    LET i0  == Ev.i
        rs  == Ev.results
        fr  == FreshOf(i0, rs)
        i   == [fresh |-> fr] @@ i0
        isBatch == i0.m = "batch"
        fb  == FoldCli(st, i0.items, 1)
        unjudged == isBatch /\ fb.bad
        r   == IF isBatch THEN [st |-> fb.st, obs |-> fb.obs] ELSE CliStep(st, i)
        exE == ExpEvents(r.obs)
        exO == ExpOuts(r.obs)
        gotE == Events(rs)
        gotO == Outs(rs)
        wantErr == r.obs = CErr
        noEvent == r.obs = <<[o |-> "NoEvent"]>>
        a   == IF Ev.ev = "In" THEN AckStep(win, pend, FromNat(Ev.n)) ELSE [ack |-> <<>>, pend |-> pend, over |-> FALSE]
        gotA == Acks(rs)
        ackBad == IF Ev.ev # "In" THEN Len(gotA) # 0
                  ELSE IF a.ack = <<>> THEN Len(gotA) # 0
                  ELSE ~(Len(gotA) = 1 /\ (a.over \/ gotA[1].msg.v = a.ack[1]))
        refusedCall == wantErr /\ Ev.ev = "Call"
        \* a malformed status message: reporting an error or ignoring it are both fine, as long as nothing is raised,
        \* emitted or changed
        lenient == i0.m = "onStatus" /\ i0.code = "malformed"
        verdictCli ==
            IF unjudged THEN ""
            ELSE IF lenient THEN (IF Len(gotE) # 0 \/ (\E k \in 1 .. Len(gotO) : IsRequest(gotO[k])) \/ Ev.probe.state # prevProbe.state
                             THEN "malformed status message was acted upon" ELSE "")
            ELSE IF noEvent THEN (IF Len(gotE) # 0 THEN "event raised in a state that does not permit it (" \o i0.m \o ")" ELSE "")
            ELSE IF Ev.res # "ok" /\ ~wantErr THEN "call failed where the workflow prescribes a result: " \o Ev.res
            ELSE IF wantErr /\ Ev.res = "ok" THEN "call succeeded where it must be refused (" \o i0.m \o ")"
            ELSE IF wantErr /\ (Len(gotO) # 0 \/ Len(gotE) # 0) THEN "refused call returned results"
            ELSE IF refusedCall /\ Ev.probe # prevProbe THEN "refused request changed the session state"
            ELSE IF wantErr THEN ""
            ELSE IF fr # -1 /\ fr \in st.itxn THEN "transaction id was issued before"
            ELSE IF Len(gotE) # Len(exE) THEN "raised events differ from what the workflow prescribes (" \o i0.m \o ")"
            ELSE IF \E k \in 1 .. Len(exE) : ~EvMatch(exE[k], gotE[k]) THEN "raised event has wrong content (" \o i0.m \o ")"
            ELSE IF ~Embed(exO, 1, gotO, 1) THEN "required outbound message missing or wrong (" \o i0.m \o ")"
            ELSE IF exO = <<>> /\ \E k \in 1 .. Len(gotO) : IsRequest(gotO[k]) THEN "request emitted by an input that does not ask for one (" \o i0.m \o ")"
            ELSE IF i0.m \in {"result", "error"} /\ r.obs = <<[o |-> "UnknownTxn"]>> /\ Ev.probe.state # prevProbe.state
                 THEN "answer to an unknown transaction was applied"
            ELSE ""
    IN
    /\ IF dead THEN TRUE
       ELSE /\ IF verdictCli # "" THEN Say("CLI", verdictCli) ELSE TRUE
            /\ IF \E k \in 1 .. Len(rs) : rs[k].k = "out" /\ rs[k].msg.k = "Undecodable"
               THEN Say("WIRE", "a returned packet is not decodable by a conformant peer") ELSE TRUE
            /\ IF \E k \in 1 .. Len(rs) : rs[k].k = "out" /\ rs[k].drop /\ rs[k].msg.k \notin {"Audio", "Video", "Undecodable"}
               THEN Say("WIRE", "droppable mark on a packet that is not media") ELSE TRUE
            /\ IF ackBad THEN Say("ACK", IF a.ack = <<>> THEN "acknowledgement emitted although the window was not reached"
                                         ELSE "window reached: exactly one acknowledgement carrying the byte count must be emitted by this call")
               ELSE TRUE
            /\ IF verdictCli = "" /\ ~unjudged /\ ~ProbeOK(Ev.probe, r.st) THEN Say("PROBE", "session state differs from the model after " \o i0.m) ELSE TRUE
            /\ IF verdictCli = "" /\ ~ClockOK(SelectSeq(rs, LAMBDA x : x.k = "out"), Ev.clk) THEN Say("SHAPE", "a control message does not carry the session uptime (" \o i0.m \o ")") ELSE TRUE
            /\ IF verdictCli = "" /\ ~isBatch /\ Ev.res = "ok" /\ ~InfoOK(i0, rs) THEN Say("SHAPE", "informational results differ from the usual ones (" \o i0.m \o ")") ELSE TRUE
            /\ IF verdictCli = "" /\ ~isBatch /\ ~wantErr /\ ~noEvent /\ ~ShapeOK(r.obs, gotO) THEN Say("SHAPE", "reaction to " \o i0.m \o " does not consist of the usual messages") ELSE TRUE
    /\ st' = r.st
    /\ prevProbe' = Ev.probe
    /\ win' = IF Ev.ev = "In" /\ i0.m = "winack" /\ Ev.res = "ok" THEN <<i0.v>> ELSE win
    /\ pend' = IF Ev.ev = "In" /\ i0.m = "winack" /\ win = <<>> THEN FromNat(Ev.probe.pending)
               ELSE IF ackBad THEN FromNat(Ev.probe.pending) ELSE a.pend
    /\ dead' = (dead \/ verdictCli # "" \/ unjudged)
    /\ UNCHANGED cfg
    /\ Advance

Step == /\ l <= NRec
        /\ IF Ev.ev = "New" THEN DoNew ELSE DoStep

Finish == /\ l = NRec + 1 /\ ~fin /\ fin' = TRUE
          /\ PrintT("@@ACCEPT|" \o ToString(NRec) \o "|0")
          /\ UNCHANGED <<l, st, win, pend, prevProbe, dead, cfg>>
Next == Step \/ Finish
Spec == Init /\ [][Next]_vars
=============================================================================
