---------------------------- MODULE Gen_ChunkRx ----------------------------
(***************************************************************************)
(* Stage S2 for the RECEIVING side of the chunk layer (C06, C15, C16).     *)
(* TLC enumerates chunk-level behaviours of an arbitrary conformant peer   *)
(* at the REAL constants: a message may start on any chunk stream with ANY *)
(* header format TxLegal allows, chunk stream ids use the 1-, 2- and       *)
(* 3-byte forms (also the non-minimal 3-byte form), chunks of messages on  *)
(* different chunk streams interleave, and a chunk-size announcement may   *)
(* complete while other messages are partially sent.  Steps are classified *)
(* with the specification's operators and the VIEW keeps one behaviour per *)
(* window of the last K classes; every printed behaviour is encoded field  *)
(* by field by the harness, fed to the real ChunkDeserializer under two    *)
(* partitions, and the recorded run is judged by Trace_Chunk.              *)
(*                                                                         *)
(* While generating, each chunk goes through the reference receiver Rx:    *)
(* Delivered restates C06/C16 at design level for the real constants.      *)
(***************************************************************************)
EXTENDS ChunkProto, FiniteSets, Json

CONSTANTS MaxSteps, K, Fine

ThrReal == <<255, 65535>>

VARIABLES tx,      \* peer's header memory per csid
          cs,      \* chunk size in force (both ends; changes when an announcement completes)
          rx,      \* reference receiver
          flight,  \* csid -> [m, h, got, size, long]
          hist, cls, err

vars == <<tx, cs, rx, flight, hist, cls, err>>

W(n) == FromNat(n)
TsSet == {W(0), W(40), W(80), W(120), W(16777215), W(16777255), W(16777256), <<65535, 65526>>, W(30)}
Csids == {3, 64, 320}
Sizes == {32, 4096}
LenSet(c) == {0, 10, c, c + 1, 2 * c + 5}

Form(c, long) == IF c <= 63 THEN 1 ELSE IF c <= 319 /\ ~long THEN 2 ELSE 3
LenClass(len, c) ==
    IF ~Fine THEN (IF len = 0 THEN "empty" ELSE IF len <= c THEN "single" ELSE "multi")
    ELSE IF len = 0 THEN "empty" ELSE IF len < c THEN "short" ELSE IF len = c THEN "exact1"
    ELSE IF len <= 2 * c THEN "two" ELSE "three"

Judge(r, m, last) ==
    IF r.err # "ok" THEN r.err
    ELSE IF last /\ r.out # <<m>> THEN "message not delivered exactly with its last chunk"
    ELSE IF ~last /\ r.out # <<>> THEN "message delivered early"
    ELSE "ok"

Start(c, m, fmt, long, size) ==
    /\ c \notin DOMAIN flight
    /\ TxLegal(tx, m, c, fmt, FALSE)
    /\ LET h    == TxHdr(tx, m, c, fmt, FALSE)
           ch   == TxFirst(tx, m, c, fmt, cs)
           r    == Rx(rx, ch)
           last == ch.n = m.len
           now  == last /\ size # 0
       IN  /\ tx' = Upd(tx, c, h)
           /\ err' = Judge(r, m, last)
           /\ rx' = IF now THEN [r.st EXCEPT !.cs = size] ELSE r.st
           /\ cs' = IF now THEN size ELSE cs
           /\ flight' = IF last THEN flight
                        ELSE Upd(flight, c, [m |-> m, h |-> h, got |-> ch.n, size |-> size, long |-> long])
           /\ hist' = Append(hist, [k |-> "start", c |-> c, ty |-> m.ty, msid |-> m.msid, ts |-> m.ts, len |-> m.len,
                                    fmt |-> fmt, long |-> long, size |-> size])
           /\ cls' = Append(cls, <<"start", Form(c, long), fmt, ch.hasExt, LenClass(m.len, cs), Cardinality(DOMAIN flight),
                                   c \in DOMAIN tx, size # 0,
                                   IF Fine THEN <<c \in DOMAIN tx /\ Lt(m.ts, tx[c].ts), c \in DOMAIN tx /\ m.msid # tx[c].msid>>
                                   ELSE <<>> >>)

Cont(c) ==
    /\ c \in DOMAIN flight
    /\ LET f    == flight[c]
           ch   == TxCont(f.h, c, f.got, cs)
           r    == Rx(rx, ch)
           last == f.got + ch.n = f.m.len
           now  == last /\ f.size # 0
       IN  /\ err' = Judge(r, f.m, last)
           /\ rx' = IF now THEN [r.st EXCEPT !.cs = f.size] ELSE r.st
           /\ cs' = IF now THEN f.size ELSE cs
           /\ flight' = IF last THEN Del(flight, c) ELSE Upd(flight, c, [f EXCEPT !.got = f.got + ch.n])
           /\ hist' = Append(hist, [k |-> "cont", c |-> c, ty |-> 0, msid |-> 0, ts |-> Zero, len |-> 0,
                                    fmt |-> 3, long |-> f.long, size |-> 0])
           /\ cls' = Append(cls, <<"cont", Form(c, f.long), last, Cardinality(DOMAIN flight), ch.hasExt, f.size # 0>>)
    /\ UNCHANGED tx

Init == /\ tx = NoFn /\ cs = 128 /\ rx = RxInit(128) /\ flight = NoFn /\ hist = <<>> /\ cls = <<>> /\ err = "ok"

Next ==
    /\ Len(hist) < MaxSteps
    /\ err = "ok"
    /\ \/ \E c \in Csids, ty \in {8, 9}, msid \in {1, 2}, ts \in TsSet, len \in LenSet(cs), fmt \in 0 .. 3, long \in BOOLEAN :
            /\ (long => c \in 64 .. 319)
            /\ Start(c, [ty |-> ty, msid |-> msid, ts |-> ts, len |-> len], fmt, long, 0)
       \/ \E c \in Csids, ts \in {W(0), W(16777215)}, fmt \in 0 .. 3, size \in Sizes :
            \* a chunk-size announcement is only started when it will not be split itself (4 bytes)
            Start(c, [ty |-> 1, msid |-> 0, ts |-> ts, len |-> 4], fmt, FALSE, size)
       \/ \E c \in Csids : Cont(c)

Spec == Init /\ [][Next]_vars

LastK(s) == IF Len(s) <= K THEN s ELSE SubSeq(s, Len(s) - K + 1, Len(s))
GenView == <<Len(cls), LastK(cls), err>>

Delivered == err = "ok"
Emit == (Len(hist) > 0) => PrintT("@@PATH|" \o ToJson(hist))
=============================================================================
