------------------------------- MODULE MC_Wire -------------------------------
(***************************************************************************)
(* Self-check of ChunkWire (Base = 65536): a chunk record written out      *)
(* field by field per RTMP 5.3.1 is read back by ParseChunk as the same    *)
(* record, consuming exactly its bytes, and EVERY strict prefix of it      *)
(* yields "need more" (never a result, never "illegal") - which is what    *)
(* lets the trace specifications use ParseChunk on fragmented input.       *)
(* Universe: boundary chunk stream ids (all three forms), all formats,     *)
(* saturated / unsaturated fields with and without extended timestamps,    *)
(* boundary lengths and ids.  TLC enumerates it as initial states.         *)
(***************************************************************************)
EXTENDS ChunkWire, FiniteSets

ThrReal == <<255, 65535>>
LitB(bytes) == IF bytes = <<>> THEN <<>> ELSE <<[l |-> bytes]>>

B3(wd) == <<wd[1], wd[2] \div 256, wd[2] % 256>>
N3(n) == <<n \div 65536, (n \div 256) % 256, n % 256>>
BE4(wd) == <<wd[1] \div 256, wd[1] % 256, wd[2] \div 256, wd[2] % 256>>
LE4(wd) == <<wd[2] % 256, wd[2] \div 256, wd[1] % 256, wd[1] \div 256>>

Basic(fmt, c, long) ==
    IF c <= 63 THEN <<fmt * 64 + c>>
    ELSE IF c <= 319 /\ ~long THEN <<fmt * 64, c - 64>>
    ELSE <<fmt * 64 + 1, (c - 64) % 256, (c - 64) \div 256>>

Enc(ch, long) ==
    Basic(ch.fmt, ch.csid, long)
    \o (IF ch.fmt <= 2 THEN B3(ch.field) ELSE <<>>)
    \o (IF ch.fmt <= 1 THEN N3(ch.len) \o <<ch.ty>> ELSE <<>>)
    \o (IF ch.fmt = 0 THEN LE4(ch.msid) ELSE <<>>)
    \o (IF ch.hasExt THEN BE4(ch.ext) ELSE <<>>)

Csids == {2, 63, 64, 65, 319, 320, 1000, 65599}
Fields == {<<0, 0>>, <<0, 1>>, <<255, 65534>>, ThrReal}
Exts == {ThrReal, <<256, 0>>, <<65535, 65535>>}
Lens == {0, 1, 300, 16777215}
Prev(f) == [ts |-> <<0, 9>>, delta |-> IF f = ThrReal THEN <<256, 0>> ELSE f, field |-> f, len |-> 300, ty |-> 8, msid |-> <<0, 1>>]

VARIABLES ch, st, long
vars == <<ch, st, long>>

Init ==
    /\ long \in BOOLEAN
    /\ \E c \in Csids, fmt \in 0 .. 3, f \in Fields, e \in Exts, ln \in Lens, ty \in {0, 255}, ms \in {<<0, 0>>, <<65535, 65534>>},
          pf \in {<<0, 5>>, ThrReal}, cs \in {1, 128, 2147483647} :
          LET s0 == [mem |-> (c :> Prev(pf)), part |-> NoFn, cs |-> cs]
              c0 == [csid |-> c, fmt |-> fmt, field |-> IF fmt = 3 THEN Zero ELSE f, hasExt |-> FALSE, ext |-> Zero,
                     len |-> IF fmt <= 1 THEN ln ELSE 0, ty |-> IF fmt <= 1 THEN ty ELSE 0,
                     msid |-> IF fmt = 0 THEN ms ELSE Zero, n |-> 0]
              hx == ExpectExt(s0, c0)
              c1 == [c0 EXCEPT !.hasExt = hx, !.ext = IF hx THEN e ELSE Zero]
          IN /\ st = s0
             /\ ch = [c1 EXCEPT !.n = WantN(s0, c1)]
Next == UNCHANGED vars
Spec == Init /\ [][Next]_vars

Hdr == Enc(ch, long)
Whole == LitB(Hdr) \o (IF ch.n = 0 THEN <<>> ELSE <<[r |-> <<7, ch.n>>]>>)

RoundTrip ==
    LET r == ParseChunk(Whole, Start, st, FALSE) IN
    /\ r.res = "ok" /\ r.ch = ch /\ r.after[3] = Len(Hdr) + ch.n /\ r.pay[3] = Len(Hdr)

\* minimal form: the 3-byte form for csid < 320 is rejected when minimality is demanded, everything else accepted
Minimality ==
    LET r == ParseChunk(Whole, Start, st, TRUE) IN
    IF long /\ ch.csid >= 64 /\ ch.csid <= 319 THEN r.res = "illegal" ELSE r.res = "ok"

PrefixesNeedMore ==
    \A k \in 0 .. Len(Hdr) - 1 :
        LET r == ParseChunk(LitB(SubSeq(Hdr, 1, k)), Start, st, FALSE) IN r.res = "more"
PayloadNeedMore ==
    ch.n > 0 => ParseChunk(LitB(Hdr) \o (IF ch.n = 1 THEN <<>> ELSE <<[r |-> <<7, ch.n - 1>>]>>), Start, st, FALSE).res = "more"
=============================================================================
