SPECIFICATION Spec
CONSTANTS
  P = 2
  T = 2
INVARIANTS NoError LibEmitsExactly NoEarlyCompletion LibAppExact PeerSeesEcho
PROPERTY Live
CHECK_DEADLOCK FALSE
