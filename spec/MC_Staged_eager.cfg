SPECIFICATION Spec
CONSTANTS
  Widths <- W1
  Eager = TRUE
INVARIANT PartitionIndependent
CHECK_DEADLOCK FALSE
