----------------------------- MODULE MC_Chunk -----------------------------
(***************************************************************************)
(* Design-level model of the chunk protocol: a sender that may use ANY     *)
(* legal encoding (or, with Policy = "lib", exactly the library's policy)  *)
(* and the reference receiver, exchanging chunk records.  Exhaustive for   *)
(* small constants: words modulo Base^2, saturation threshold Thr scaled   *)
(* down, chunk sizes in Sizes, message lengths in Lens.                    *)
(*                                                                         *)
(* Decides, at design level:                                               *)
(*   C01/C06/C07  DeliveredExact: every message is delivered exactly,      *)
(*                when its last chunk arrives, under every legal encoding  *)
(*   C08          with dropped droppable messages (DropRule = TRUE);       *)
(*                DropRule = FALSE yields a counterexample                 *)
(*   C16          Interleave = TRUE: per-csid reassembly                   *)
(*   library policy is a refinement of "legal" (Policy = "lib")            *)
(***************************************************************************)
EXTENDS ChunkProto, FiniteSets

CONSTANTS Csids, Types, Msids, Lens, Sizes, MaxMsgs, CtlLen,
          DropRule, Interleave, Policy, Shared

VARIABLES tx,      \* sender memory: csid -> header (+ drop flag)
          txcs,    \* sender chunk size
          rx,      \* receiver state [mem, part, cs]
          flight,  \* csid -> [m, h, got, full, size]  messages being sent
          nsent, err

vars == <<tx, txcs, rx, flight, nsent, err>>

\* values for the configuration files (tuples cannot be written in a .cfg)
ThrMC2  == <<1, 0>>        \* Base = 2: words 0..3, saturation at 2
ThrMC3  == <<1, 1>>        \* Base = 3: words 0..8, saturation at 4
MsidsMC == {<<0, 0>>, <<0, 1>>}

Msg == [ty : Types, msid : Msids, ts : Word, len : Lens]

Init == /\ tx = NoFn /\ flight = NoFn /\ nsent = 0 /\ err = "ok"
        /\ txcs \in Sizes /\ rx = RxInit(txcs)

\* feed one chunk record to the receiver and compare what it delivers
\* m: message the chunk belongs to; last: this is its last chunk; size: new chunk size it announces (0 = none)
Feed(ch, m, last, size) ==
    LET r == IF Shared THEN RxShared(rx, ch) ELSE Rx(rx, ch) IN
    IF r.err # "ok" THEN /\ err' = r.err /\ rx' = rx
    ELSE IF last /\ r.out = <<>>        THEN /\ err' = "message not delivered with its last chunk" /\ rx' = r.st
    ELSE IF ~last /\ r.out # <<>>       THEN /\ err' = "message delivered early" /\ rx' = r.st
    ELSE IF last /\ r.out[1] # m        THEN /\ err' = "delivered message differs from sent message" /\ rx' = r.st
    ELSE /\ err' = err
         /\ rx' = IF last /\ size # 0 THEN [r.st EXCEPT !.cs = size] ELSE r.st

Start(m, c, fmt, drop, dropped, full, size) ==
    /\ err = "ok" /\ nsent < MaxMsgs
    /\ c \notin DOMAIN flight
    /\ (~Interleave => flight = NoFn)
    /\ (dropped => drop)
    /\ (full => fmt = 0)
    /\ IF Policy = "lib"
       THEN c = LibCsid(m.ty) /\ fmt = LibFmt(tx, m, c, full)
       ELSE TxLegal(tx, m, c, fmt, DropRule)
    /\ nsent' = nsent + 1
    /\ LET h == TxHdr(tx, m, c, fmt, drop)
           ch == TxFirst(tx, m, c, fmt, txcs)
           last == ch.n = m.len
       IN /\ tx' = Upd(tx, c, h)
          /\ IF ~TxLegal(tx, m, c, fmt, DropRule)
             THEN /\ err' = "policy chose an illegal format" /\ UNCHANGED <<rx, flight, txcs>>
             ELSE IF dropped
             THEN /\ UNCHANGED <<rx, flight, err>>
                  /\ txcs' = txcs
             ELSE /\ Feed(ch, m, last, size)
                  /\ flight' = IF last THEN flight
                               ELSE Upd(flight, c, [m |-> m, h |-> h, got |-> ch.n, full |-> full, size |-> size])
                  /\ txcs' = IF last /\ size # 0 THEN size ELSE txcs

Cont(c) ==
    /\ err = "ok"
    /\ c \in DOMAIN flight
    /\ LET f == flight[c]
           ch == IF f.full THEN TxContFull(f.h, c, f.got, txcs) ELSE TxCont(f.h, c, f.got, txcs)
           last == f.got + ch.n = f.m.len
       IN /\ Feed(ch, f.m, last, f.size)
          /\ flight' = IF last THEN Del(flight, c) ELSE Upd(flight, c, [f EXCEPT !.got = f.got + ch.n])
          /\ txcs' = IF last /\ f.size # 0 THEN f.size ELSE txcs
    /\ UNCHANGED <<tx, nsent>>

SendData ==
    \E m \in Msg, c \in Csids, fmt \in 0..3, drop \in BOOLEAN, dropped \in BOOLEAN, full \in BOOLEAN :
        /\ m.ty # 1
        /\ Start(m, c, fmt, drop, dropped, full, 0)

SendSetCS ==
    \E ts \in Word, c \in Csids, fmt \in 0..3, size \in Sizes :
        /\ (Policy = "lib" => fmt = 0)   \* the library always forces a full header here
        /\ Start([ty |-> 1, msid |-> Zero, ts |-> ts, len |-> CtlLen], c, fmt, FALSE, FALSE, Policy = "lib", size)

Next == SendData \/ SendSetCS \/ (\E c \in Csids : Cont(c))

Spec == Init /\ [][Next]_vars

DeliveredExact == err = "ok"

\* nothing is left half-reassembled at the receiver unless the sender is mid-message too
NoOrphans == (err = "ok" /\ ~Shared) => DOMAIN rx.part = DOMAIN flight

\* both ends agree on the chunk size whenever no size change is in flight
SizesAgree == (err = "ok" /\ \A c \in DOMAIN flight : flight[c].size = 0) => rx.cs = txcs
=============================================================================
