------------------------------ MODULE RtmpMsg ------------------------------
(***************************************************************************)
(* RTMP message bodies (RTMP 1.0 sections 5.4, 6.2, 7.1): which type id    *)
(* and which body layout each message variant has.  Written from the       *)
(* protocol document.                                                      *)
(*                                                                         *)
(*   1 SetChunkSize  u32 BE, top bit 0 (1 .. 2^31-1)                       *)
(*   2 Abort         u32 BE chunk stream id                                *)
(*   3 Acknowledgement u32 BE sequence number                              *)
(*   4 UserControl   u16 BE event type + event data:                       *)
(*        0 StreamBegin 1 StreamEOF 2 StreamDry 4 StreamIsRecorded         *)
(*        31 BufferEmpty 32 BufferReady        -> u32 stream id            *)
(*        3 SetBufferLength                    -> u32 stream id, u32 ms    *)
(*        6 PingRequest 7 PingResponse         -> u32 timestamp            *)
(*   5 WindowAcknowledgementSize u32 BE                                    *)
(*   6 SetPeerBandwidth u32 BE + limit type byte (0 hard 1 soft 2 dynamic) *)
(*   8 Audio / 9 Video  opaque bytes                                       *)
(*   18 (15) data message: a sequence of AMF0 values                       *)
(*   20 (17) command: AMF0 string name, number transaction id, command     *)
(*           object, further arguments; type 17 bodies may start with a    *)
(*           0 byte (AMF3 wrapper) before the AMF0 values                  *)
(*   any other id: opaque                                                  *)
(*                                                                         *)
(* Messages are records as logged: [k |-> kind, ...]; u32 fields are words *)
(* <<hi, lo>>, optional fields are <<>> or <<value>>.                      *)
(***************************************************************************)
EXTENDS Amf0

BE(w) == <<w[1] \div 256, w[1] % 256, w[2] \div 256, w[2] % 256>>
U16B(n) == <<n \div 256, n % 256>>

EventCode(et) ==
    CASE et = "StreamBegin" -> 0 [] et = "StreamEof" -> 1 [] et = "StreamDry" -> 2
      [] et = "SetBufferLength" -> 3 [] et = "StreamIsRecorded" -> 4
      [] et = "PingRequest" -> 6 [] et = "PingResponse" -> 7
      [] et = "BufferEmpty" -> 31 [] et = "BufferReady" -> 32

LimitCode(lt) == CASE lt = "Hard" -> 0 [] lt = "Soft" -> 1 [] lt = "Dynamic" -> 2

StreamEvents == {"StreamBegin", "StreamEof", "StreamDry", "StreamIsRecorded", "BufferEmpty", "BufferReady"}

KnownIds == {1, 2, 3, 4, 5, 6, 8, 9, 15, 17, 18, 20}

TypeOf(M) ==
    CASE M.k = "SetChunkSize" -> 1 [] M.k = "Abort" -> 2 [] M.k = "Ack" -> 3 [] M.k = "UserControl" -> 4
      [] M.k = "WinAck" -> 5 [] M.k = "SetPeerBw" -> 6 [] M.k = "Audio" -> 8 [] M.k = "Video" -> 9
      [] M.k = "Data" -> 18 [] M.k = "Command" -> 20 [] M.k = "Unknown" -> M.ty

\* a message the wire can express ("well-formed")
WellFormed(M) ==
    CASE M.k = "SetChunkSize" -> M.v[1] < 32768
      [] M.k = "UserControl" ->
            IF M.et \in StreamEvents THEN M.sid # <<>>
            ELSE IF M.et = "SetBufferLength" THEN M.sid # <<>> /\ M.buf # <<>>
            ELSE M.ts # <<>>
      [] M.k = "Unknown" -> M.ty \notin KnownIds
      [] M.k = "Data" -> \A i \in 1 .. Len(M.vals) : Representable(Norm(M.vals[i]))
      [] M.k = "Command" -> /\ BLen(M.name) <= 65535 /\ Representable(Norm(M.obj))
                            /\ \A i \in 1 .. Len(M.args) : Representable(Norm(M.args[i]))
      [] OTHER -> TRUE

\* body of the fixed-layout control messages, as a byte tuple
Fixed(M) ==
    CASE M.k \in {"SetChunkSize", "Abort", "Ack", "WinAck"} -> BE(M.v)
      [] M.k = "SetPeerBw" -> BE(M.v) \o <<LimitCode(M.lt)>>
      [] M.k = "UserControl" ->
            U16B(EventCode(M.et)) \o
            (IF M.et \in StreamEvents THEN BE(M.sid[1])
             ELSE IF M.et = "SetBufferLength" THEN BE(M.sid[1]) \o BE(M.buf[1])
             ELSE BE(M.ts[1]))

IsFixed(M) == M.k \in {"SetChunkSize", "Abort", "Ack", "WinAck", "SetPeerBw", "UserControl"}

CommandVals(M) == <<[t |-> "s", s |-> WholeRef(M.name)],
                    [t |-> "n", b |-> WholeRef(<<[l |-> M.txn]>>)],
                    Norm(M.obj)>> \o NormSeq(M.args)

AmfBodyIs(B, c, vals) == LET r == DecSeq(B, c, <<>>) IN r.ok /\ SeqEq(r.vs, vals)

\* Is B the body the specification prescribes for message M under type id ty?
\* alias: accept the AMF3-flagged ids 15 / 17 as carriers of AMF0 data / commands (decoder direction)
Matches(M, ty, B, alias) ==
    IF IsFixed(M) THEN ty = TypeOf(M) /\ BytesEq(B, Lit(Fixed(M)))
    ELSE IF M.k \in {"Audio", "Video", "Unknown"} THEN ty = TypeOf(M) /\ BytesEq(B, M.data)
    ELSE IF M.k = "Data" THEN (ty = 18 \/ (alias /\ ty = 15)) /\ AmfBodyIs(B, Start, NormSeq(M.vals))
    ELSE \* Command
         \/ (ty = 20 \/ (alias /\ ty = 17)) /\ AmfBodyIs(B, Start, CommandVals(M))
         \/ alias /\ ty = 17 /\ BLen(B) > 0 /\ ByteAt(B, Start) = 0 /\ AmfBodyIs(B, Adv(B, Start, 1), CommandVals(M))

\* equality of two logged messages (AMF0 parts as values: objects are maps)
MsgEq(A, C) ==
    /\ A.k = C.k
    /\ CASE A.k = "Data" -> SeqEq(NormSeq(A.vals), NormSeq(C.vals))
         [] A.k = "Command" -> SeqEq(CommandVals(A), CommandVals(C))
         [] A.k \in {"Audio", "Video"} -> BytesEq(A.data, C.data)
         [] A.k = "Unknown" -> A.ty = C.ty /\ BytesEq(A.data, C.data)
         [] OTHER -> A = C
=============================================================================
