----------------------------- MODULE MC_Interop -----------------------------
(***************************************************************************)
(* Composition (C02 at design level): the client session model, the server *)
(* session model, two FIFO message channels and an application that        *)
(* accepts every request.  The messages on the channels are the outbound   *)
(* observations of one model translated into the inbound descriptors of    *)
(* the other - i.e. the two specifications are checked AGAINST EACH OTHER. *)
(* Script: connect; publish or play; N media items (numbered through the   *)
(* timestamp) + stop.                                                      *)
(* Safety: nothing fails, items are raised at the receiver exactly once,   *)
(* in order, under the requested application and key; liveness (weak       *)
(* fairness): the activity starts, every item arrives, stopping raises the *)
(* finished event at the server.                                           *)
(***************************************************************************)
EXTENDS ClientSession, ServerSession

CONSTANTS Scenario, N, Cap

App == <<97, 47>>      \* "a/" - the server strips the slash, the client sends it verbatim
AppS == <<97>>
Key == <<7>>

VARIABLES cst, sst, c2s, s2c, toAccept, phase, sent, recv, fin, psid, bad,
          pings     \* which side has already sent its (one) ping request: interleaves freely with the workflow
vars == <<cst, sst, c2s, s2c, toAccept, phase, sent, recv, fin, psid, bad, pings>>

Init == /\ cst = CliInit /\ sst = SrvInit /\ c2s = <<>> /\ s2c = <<>> /\ toAccept = <<>>
        /\ phase = "start" /\ sent = 0 /\ recv = 0 /\ fin = FALSE /\ psid = 0 /\ bad = "" /\ pings = {}

MinFresh(used) == CHOOSE n \in 1 .. 9 : n \notin used /\ \A m \in 1 .. 9 : m \notin used => n <= m

\* ---- translation of outbound observations into the peer's inbound descriptors
C2S(o) ==
    CASE o.o = "OutConnect" -> <<[m |-> "connect", txn |-> o.txn, appkind |-> "ok", app |-> o.app]>>
      [] o.o = "OutCreateStream" -> <<[m |-> "createStream", txn |-> o.txn]>>
      [] o.o = "OutPublish" -> <<[m |-> "publish", msid |-> o.sid, txn |-> 0, args |-> "ok", key |-> o.key, mode |-> o.ptype]>>
      [] o.o = "OutPlay" -> <<[m |-> "play", msid |-> o.sid, txn |-> 0, args |-> "ok", key |-> o.key]>>
      [] o.o = "OutDeleteStream" -> <<[m |-> "deleteStream", arg |-> "num", sid |-> o.sid]>>
      [] o.o = "OutMedia" -> <<[m |-> IF o.kind = "publish_audio" THEN "audio" ELSE "video", msid |-> o.sid, ts |-> o.ts]>>
      [] o.o = "OutMetadata" -> <<[m |-> "setDataFrame", msid |-> o.sid, shape |-> "ok"]>>
      [] o.o = "OutWinAck" -> <<[m |-> "winack"]>>
      [] o.o = "OutSetCS" -> <<[m |-> "setcs"]>>
      [] o.o = "OutPing" -> <<[m |-> "pingreq", ts |-> 0]>>
      [] o.o = "OutPingResponse" -> <<[m |-> "pingresp", ts |-> o.ts]>>
      [] OTHER -> <<>>
S2C(o) ==
    CASE o.o = "ConnectResult" -> <<[m |-> "result", txn |-> o.txn, txnint |-> TRUE, hassid |-> FALSE, sid |-> 0]>>
      [] o.o = "CreateResult" -> <<[m |-> "result", txn |-> o.txn, txnint |-> TRUE, hassid |-> TRUE, sid |-> o.sid]>>
      [] o.o = "Error" -> <<[m |-> "error", txn |-> o.txn, txnint |-> TRUE, hassid |-> FALSE, sid |-> 0]>>
      [] o.o = "PublishStart" -> <<[m |-> "onStatus", code |-> "publish_start"]>>
      [] o.o = "PlayStart" -> <<[m |-> "onStatus", code |-> "play_start"]>>
      [] o.o = "OutMedia" -> <<[m |-> IF o.kind = "send_audio" THEN "audio" ELSE "video", msid |-> o.sid, ts |-> o.ts]>>
      [] o.o = "OutMetadata" -> <<[m |-> "onMetaData", msid |-> o.sid, shape |-> "ok"]>>
      [] o.o = "OutPing" -> <<[m |-> "pingreq", ts |-> 0]>>
      [] o.o = "PingResponse" -> <<[m |-> "pingresp", ts |-> o.ts]>>
      [] OTHER -> <<>>

RECURSIVE FlatC(_, _), FlatS(_, _)
FlatC(obs, k) == IF k > Len(obs) THEN <<>> ELSE C2S(obs[k]) \o FlatC(obs, k + 1)
FlatS(obs, k) == IF k > Len(obs) THEN <<>> ELSE S2C(obs[k]) \o FlatS(obs, k + 1)

HasO(obs, name) == \E k \in 1 .. Len(obs) : obs[k].o = name
GetO(obs, name) == obs[CHOOSE k \in 1 .. Len(obs) : obs[k].o = name]

\* ---- the client side takes a step (API call or inbound message)
ClientDoesP(i, ph) ==
    LET i1 == [fresh |-> MinFresh(cst.itxn)] @@ i
        r == CliStep(cst, i1)
        media == HasO(r.obs, "Media")
    IN /\ cst' = r.st
       /\ c2s' = c2s \o FlatC(r.obs, 1)
       /\ recv' = IF media THEN recv + 1 ELSE recv
       /\ bad' = IF r.obs = CErr THEN "client call failed: " \o i.m
                 ELSE IF media /\ GetO(r.obs, "Media").ts # recv + 1 THEN "item raised out of order, twice or never (client)"
                 ELSE bad
       /\ phase' = IF HasO(r.obs, "ConnAccepted") THEN "connected"
                   ELSE IF HasO(r.obs, "PublishAccepted") \/ HasO(r.obs, "PlaybackAccepted") THEN "active"
                   ELSE ph

ClientDoes(i) == ClientDoesP(i, phase)

\* ---- the server side takes a step
ServerDoesQ(i, q0) ==
    LET fr == IF i.m = "createStream" THEN MinFresh(sst.istream) ELSE MinFresh({n + 1 : n \in sst.ireq})
        i1 == [fresh |-> IF i.m = "createStream" THEN fr ELSE fr - 1, zero |-> 0] @@ i
        r == SrvStep(sst, i1)
        media == HasO(r.obs, "Media")
        surfaced == {k \in 1 .. Len(r.obs) : r.obs[k].o \in {"ConnectionRequested", "PublishStreamRequested", "PlayStreamRequested"}}
    IN /\ sst' = r.st
       /\ s2c' = s2c \o FlatS(r.obs, 1)
       /\ toAccept' = IF surfaced = {} THEN q0 ELSE Append(q0, r.obs[CHOOSE j \in surfaced : TRUE].req)
       /\ recv' = IF media THEN recv + 1 ELSE recv
       /\ psid' = IF HasO(r.obs, "PlayStart") THEN GetO(r.obs, "PlayStart").sid ELSE psid
       /\ fin' = (fin \/ HasO(r.obs, "PublishStreamFinished") \/ HasO(r.obs, "PlayStreamFinished"))
       /\ bad' = IF r.obs = ErrObs THEN "server call failed: " \o i.m
                 ELSE IF media /\ (GetO(r.obs, "Media").ts # recv + 1 \/ GetO(r.obs, "Media").app # AppS \/ GetO(r.obs, "Media").key # Key)
                      THEN "item raised out of order / twice / with the wrong application or key (server)"
                 ELSE IF \E k \in surfaced : r.obs[k].app # AppS THEN "request surfaced under a different application name"
                 ELSE IF (HasO(r.obs, "PublishStreamFinished") \/ HasO(r.obs, "PlayStreamFinished")) /\ fin THEN "second finished event"
                 ELSE bad

ServerDoes(i) == ServerDoesQ(i, toAccept)

Room == Len(c2s) < Cap /\ Len(s2c) < Cap

Request == /\ phase = "connected" /\ Room
           /\ ClientDoesP(IF Scenario = "publish" THEN [m |-> "request_publishing", key |-> Key, ptype |-> "live"]
                          ELSE [m |-> "request_playback", key |-> Key], "requested")
           /\ UNCHANGED <<sst, s2c, toAccept, sent, fin, psid, pings>>
SendItem == /\ phase = "active" /\ sent < N /\ Room
            /\ (Scenario = "play" => psid # 0)
            /\ sent' = sent + 1
            /\ IF Scenario = "publish"
               THEN ClientDoes([m |-> "publish_video", ts |-> sent + 1, drop |-> FALSE]) /\ UNCHANGED <<sst, s2c, toAccept, fin, psid, pings>>
               ELSE ServerDoes([m |-> "send_video", sid |-> psid, ts |-> sent + 1, drop |-> FALSE]) /\ UNCHANGED <<cst, c2s, phase, pings>>
DeliverS2C == /\ s2c # <<>> /\ Len(c2s) < Cap + 2
              /\ ClientDoes(Head(s2c)) /\ s2c' = Tail(s2c) /\ UNCHANGED <<sst, toAccept, sent, fin, psid, pings>>
AppAccept == /\ toAccept # <<>> /\ Len(s2c) < Cap + 2
             /\ ServerDoesQ([m |-> "accept", id |-> Head(toAccept)], Tail(toAccept))
             /\ UNCHANGED <<cst, c2s, phase, sent, pings>>

ConnectA == /\ phase = "start" /\ Room
            /\ LET i1 == [m |-> "request_connection", app |-> App, fresh |-> MinFresh(cst.itxn)]
                   r == CliStep(cst, i1)
               IN /\ cst' = r.st /\ c2s' = c2s \o FlatC(r.obs, 1)
                  /\ bad' = IF r.obs = CErr THEN "client call failed: request_connection" ELSE bad
            /\ phase' = "connecting" /\ UNCHANGED <<sst, s2c, toAccept, sent, recv, fin, psid, pings>>
StopA == /\ phase = "active" /\ sent = N /\ recv = N /\ Room
         /\ LET r == CliStep(cst, [m |-> IF Scenario = "publish" THEN "stop_publishing" ELSE "stop_playback"])
            IN /\ cst' = r.st /\ c2s' = c2s \o FlatC(r.obs, 1)
               /\ bad' = IF r.obs = CErr THEN "client call failed: stop" ELSE bad
         /\ phase' = "stopped" /\ UNCHANGED <<sst, s2c, toAccept, sent, recv, fin, psid, pings>>
DeliverC2SA == /\ c2s # <<>> /\ Len(s2c) < Cap + 2
               /\ LET i == Head(c2s)
                      fr == IF i.m = "createStream" THEN MinFresh(sst.istream) ELSE MinFresh({n + 1 : n \in sst.ireq}) - 1
                      r == SrvStep(sst, [fresh |-> fr, zero |-> 0] @@ i)
                      media == HasO(r.obs, "Media")
                      surfaced == {k \in 1 .. Len(r.obs) : r.obs[k].o \in {"ConnectionRequested", "PublishStreamRequested", "PlayStreamRequested"}}
                  IN /\ sst' = r.st /\ s2c' = s2c \o FlatS(r.obs, 1) /\ c2s' = Tail(c2s)
                     /\ toAccept' = IF surfaced = {} THEN toAccept ELSE Append(toAccept, r.obs[CHOOSE j \in surfaced : TRUE].req)
                     /\ recv' = IF media THEN recv + 1 ELSE recv
                     /\ fin' = (fin \/ HasO(r.obs, "PublishStreamFinished") \/ HasO(r.obs, "PlayStreamFinished"))
                     /\ bad' = IF r.obs = ErrObs THEN "server failed on: " \o i.m
                               ELSE IF media /\ (GetO(r.obs, "Media").ts # recv + 1 \/ GetO(r.obs, "Media").app # AppS \/ GetO(r.obs, "Media").key # Key)
                                    THEN "item raised out of order / twice / with the wrong application or key (server)"
                               ELSE IF \E k \in surfaced : r.obs[k].app # AppS THEN "request surfaced under a different application name"
                               ELSE IF (HasO(r.obs, "PublishStreamFinished") \/ HasO(r.obs, "PlayStreamFinished")) /\ fin THEN "second finished event"
                               ELSE bad
               /\ UNCHANGED <<cst, phase, sent, psid, pings>>

\* each side may send one ping request at any time; request and response travel through the same channels
ClientPing == /\ "c" \notin pings /\ Room /\ pings' = pings \cup {"c"}
              /\ ClientDoes([m |-> "send_ping"]) /\ UNCHANGED <<sst, s2c, toAccept, sent, fin, psid>>
ServerPing == /\ "s" \notin pings /\ Room /\ pings' = pings \cup {"s"}
              /\ ServerDoes([m |-> "send_ping"]) /\ UNCHANGED <<cst, c2s, phase, sent>>

Next == ConnectA \/ Request \/ SendItem \/ StopA \/ DeliverC2SA \/ DeliverS2C \/ AppAccept \/ ClientPing \/ ServerPing
Spec == Init /\ [][Next]_vars /\ WF_vars(ConnectA) /\ WF_vars(Request) /\ WF_vars(SendItem) /\ WF_vars(StopA)
             /\ WF_vars(DeliverC2SA) /\ WF_vars(DeliverS2C) /\ WF_vars(AppAccept) /\ WF_vars(ClientPing) /\ WF_vars(ServerPing)

Safe == bad = ""
Done == phase = "stopped" /\ fin /\ recv = N /\ c2s = <<>> /\ s2c = <<>> /\ pings = {"c", "s"}
Live == <>[]Done
=============================================================================
