------------------------------ MODULE Gen_Amf0 ------------------------------
(***************************************************************************)
(* Stage S2 for AMF0: TLC enumerates a universe of value sequences (all    *)
(* leaves, all one- and two-element containers over them, containers of    *)
(* containers, and - with Deeper - a third level), checks the reference    *)
(* codec on each (RoundTrip, PrefixOK, BadMarker as in MC_Amf0) and prints *)
(* the reference ENCODING of each.  The harness feeds every printed        *)
(* encoding, every strict prefix of it and its bad-marker variants to the  *)
(* real decoder and re-encodes what the real decoder returned with the     *)
(* real encoder (vharness amf gen); Trace_Amf0 judges the recorded events  *)
(* (classes ref / refcut / bad, and Enc).                                  *)
(***************************************************************************)
EXTENDS MC_Amf0, Json

CONSTANT Deeper

\* more leaves than MC_Amf0: multi-byte text, a long-ish string, more number patterns
Leaf2 == Leaf \cup {S(<<195, 169>>), S(<<240, 159, 152, 128>>), N(<<128, 0, 0, 0, 0, 0, 0, 0>>),
                    N(<<64, 9, 33, 251, 84, 68, 45, 24>>), N(<<255, 240, 0, 0, 0, 0, 0, 0>>)}
M1 == Leaf2 \cup Arrs(Leaf2) \cup Objs(Leaf2)
M2 == M1 \cup Arr1(L1) \cup Obj1(L1) \cup Arrs(Small) \cup Objs(Small)
M3 == IF Deeper THEN M2 \cup Arr1(Arr1(L1) \cup Obj1(L1)) \cup Obj1(Arr1(L1) \cup Obj1(L1)) ELSE M2

GenSeqs == {<<v>> : v \in M3} \cup {<<v, w>> : v \in Small, w \in Small} \cup {<<>>}
          \cup {<<v, w, x>> : v \in Small, w \in {[t |-> "z"], [t |-> "o", p |-> <<>>]}, x \in Small}

GenInit == vs \in GenSeqs
GenSpec == GenInit /\ [][Next]_vs

Emit == PrintT("@@AMF|" \o ToJson(EncB))
=============================================================================
