SPECIFICATION Spec
CONSTANTS
  M = 7
  MaxN = 8
INVARIANT Inv
CONSTRAINT Bound
CHECK_DEADLOCK FALSE
