SPECIFICATION Spec
CONSTANTS
  Deep = TRUE
INVARIANTS RoundTrip PrefixOK BadMarker AllRepresentable
CHECK_DEADLOCK FALSE
