SPECIFICATION Spec
CONSTANTS
  P = 2
  T = 1
  Scenarios <- DeadScenarios
INVARIANTS NoError
PROPERTY Live
CHECK_DEADLOCK FALSE
