------------------------------ MODULE Bytes ------------------------------
(***************************************************************************)
(* Byte strings as they appear in the event logs: a sequence of SEGMENTS,  *)
(* each either literal  [l |-> <<b1, ..., bn>>]  or a run  [r |-> <<v, n>>] *)
(* (n copies of byte v).  Runs make a 16 MiB payload a one-element value.  *)
(* The harness never emits an empty segment.                               *)
(*                                                                         *)
(* A cursor is <<k, o, abs>>: segment index (1-based), bytes already       *)
(* consumed inside that segment, absolute offset.  Normal form: o <        *)
(* SegLen(B[k]), or k = Len(B) + 1 /\ o = 0 at the end.                    *)
(***************************************************************************)
EXTENDS Naturals, Sequences, SequencesExt

IsRun(s)  == "r" \in DOMAIN s
SegLen(s) == IF IsRun(s) THEN s.r[2] ELSE Len(s.l)
SegAt(s, i) == IF IsRun(s) THEN s.r[1] ELSE s.l[i]          \* 1-based inside the segment

BLen(B) == FoldLeft(LAMBDA acc, s : acc + SegLen(s), 0, B)

Start == <<1, 0, 0>>
AtEnd(B, c) == c[1] > Len(B)
Avail(B, c) == BLen(B) - c[3]

RECURSIVE Adv(_, _, _)
\* advance by n <= Avail(B, c) bytes
Adv(B, c, n) ==
    IF n = 0 THEN c
    ELSE LET rem == SegLen(B[c[1]]) - c[2] IN
         IF n < rem THEN <<c[1], c[2] + n, c[3] + n>>
         ELSE Adv(B, <<c[1] + 1, 0, c[3] + rem>>, n - rem)

ByteAt(B, c) == SegAt(B[c[1]], c[2] + 1)

RECURSIVE Take(_, _, _)
\* the next n bytes as a tuple (n small; n <= Avail)
Take(B, c, n) == IF n = 0 THEN <<>> ELSE <<ByteAt(B, c)>> \o Take(B, Adv(B, c, 1), n - 1)

Min3(a, b, c) == IF a <= b /\ a <= c THEN a ELSE IF b <= c THEN b ELSE c

RECURSIVE SliceEq(_, _, _, _, _)
\* do the n bytes of A from ca equal the n bytes of B from cb?  (n <= Avail on both sides)
SliceEq(A, ca, B, cb, n) ==
    IF n = 0 THEN TRUE
    ELSE LET sa == A[ca[1]]
             sb == B[cb[1]]
             m  == Min3(SegLen(sa) - ca[2], SegLen(sb) - cb[2], n)
             same == IF IsRun(sa) /\ IsRun(sb) THEN sa.r[1] = sb.r[1]
                     ELSE \A i \in 1 .. m : SegAt(sa, ca[2] + i) = SegAt(sb, cb[2] + i)
         IN same /\ SliceEq(A, Adv(A, ca, m), B, Adv(B, cb, m), n - m)

BytesEq(A, B) == BLen(A) = BLen(B) /\ SliceEq(A, Start, B, Start, BLen(A))

\* cursor at absolute offset n (n <= BLen(B))
CursorAt(B, n) == Adv(B, Start, n)
=============================================================================
