----------------------------- MODULE AckFlatApa -----------------------------
(* Apalache entry point for AckFlat: the REAL modulus 2^32 (a literal TLC cannot even parse, *)
(* hence the separate module); call sizes are unbounded there (NextSym).                     *)
EXTENDS AckFlat
CInit == M = 4294967296 /\ MaxN = 0
=============================================================================
