------------------------------ MODULE MC_Amf0 ------------------------------
(***************************************************************************)
(* Small-universe exhaustive check of the AMF0 reference codec of Amf0.tla *)
(* against itself (this is what makes it usable as an oracle):             *)
(*   RoundTrip   Dec(Enc(vs)) = vs, consuming everything                   *)
(*   PrefixOK    every strict prefix of Enc(vs) is rejected, or (cut at a  *)
(*               value boundary) decodes to exactly a prefix of vs         *)
(*   BadMarker   replacing the first marker by an unsupported one is an    *)
(*               error                                                     *)
(* TLC enumerates the universe as initial states; there are no steps.      *)
(***************************************************************************)
EXTENDS Amf0, FiniteSets

CONSTANTS Deep      \* TRUE: two levels of nesting, FALSE: one

S(bytes) == [t |-> "s", s |-> WholeRef(Lit(bytes))]
N(bytes) == [t |-> "n", b |-> WholeRef(Lit(bytes))]
NameSet == {<<97>>, <<98, 99>>}
NameRef(b) == WholeRef(Lit(b))

Leaf == {N(<<0, 0, 0, 0, 0, 0, 0, 0>>), N(<<127, 248, 0, 0, 0, 0, 0, 9>>),
         [t |-> "b", v |-> TRUE], [t |-> "b", v |-> FALSE],
         S(<<>>), S(<<9>>), S(<<0, 0>>), [t |-> "z"], [t |-> "u"]}

Arrs(X)  == {[t |-> "a", e |-> <<>>]} \cup {[t |-> "a", e |-> <<x>>] : x \in X}
            \cup {[t |-> "a", e |-> <<x, y>>] : x \in X, y \in X}
Objs(X)  == {[t |-> "o", p |-> <<>>]}
            \cup {[t |-> "o", p |-> << <<NameRef(n), x>> >>] : n \in NameSet, x \in X}
            \cup {[t |-> "o", p |-> << <<NameRef(<<97>>), x>>, <<NameRef(<<98, 99>>), y>> >>] : x \in X, y \in X}
Arr1(X)  == {[t |-> "a", e |-> <<x>>] : x \in X}
Obj1(X)  == {[t |-> "o", p |-> << <<NameRef(<<97>>), x>> >>] : x \in X}

L1 == Leaf \cup Arrs(Leaf) \cup Objs(Leaf)
Small == {[t |-> "z"], S(<<9>>), [t |-> "a", e |-> <<>>], [t |-> "o", p |-> <<>>],
          [t |-> "a", e |-> <<[t |-> "u"]>>], [t |-> "o", p |-> << <<NameRef(<<97>>), [t |-> "b", v |-> TRUE]>> >>]}
L2 == IF Deep THEN L1 \cup Arr1(L1) \cup Obj1(L1) \cup Arrs(Small) \cup Objs(Small) ELSE L1

Seqs == {<<v>> : v \in L2} \cup {<<v, w>> : v \in Small, w \in Small} \cup {<<>>}

VARIABLE vs
Init == vs \in Seqs
Next == UNCHANGED vs
Spec == Init /\ [][Next]_vs

EncB == EncSeq(vs, 1)

RoundTrip == LET r == DecAll(Lit(EncB)) IN r.ok /\ SeqEq(r.vs, vs) /\ r.c[3] = Len(EncB)

PrefixOK == \A k \in 0 .. Len(EncB) - 1 :
               LET r == DecAll(Lit(SubSeq(EncB, 1, k))) IN
               r.ok => /\ Len(r.vs) <= Len(vs)
                       /\ SeqEq(r.vs, SubSeq(vs, 1, Len(r.vs)))

BadMarker == Len(EncB) > 0 =>
               \A m \in {4, 7, 11, 12, 13, 17, 255} :
                  LET r == DecAll(Lit(<<m>> \o Tail(EncB))) IN ~r.ok /\ r.why = "unsupported marker"

\* a decoder that stops at the end of input (as the library's does for arrays) stays inside TruncRel
AllRepresentable == \A i \in 1 .. Len(vs) : Representable(vs[i])
=============================================================================
