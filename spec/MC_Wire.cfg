SPECIFICATION Spec
CONSTANTS
  Base = 65536
  Thr <- ThrReal
INVARIANTS RoundTrip Minimality PrefixesNeedMore PayloadNeedMore
CHECK_DEADLOCK FALSE
