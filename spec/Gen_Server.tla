----------------------------- MODULE Gen_Server -----------------------------
(***************************************************************************)
(* S2 - behaviour generation from the server session model.  Same state    *)
(* machine and inputs as MC_Server, plus `last` (the input just taken,     *)
(* hidden from the fingerprint by VIEW so that it does not multiply        *)
(* states).  The action constraint prints every generated transition as    *)
(* one JSON line  EDGE {s, i, t}  (s, t: model states; i: the input).      *)
(* lib/gen_skeletons.py builds the labelled graph and a set of paths from  *)
(* the initial state that covers EVERY transition; the harness replays the *)
(* paths on the real ServerSession (fresh ids are re-bound to whatever the *)
(* real session hands out) and Trace_Server validates the logs.            *)
(***************************************************************************)
EXTENDS MC_Server, Json

VARIABLE last
gvars == <<vars, last>>

GInit == Init /\ last = [m |-> "none"]
GNext == bad = "" /\ \E i \in Inputs : Step(i) /\ last' = i
GSpec == GInit /\ [][GNext]_gvars

GView == <<st, bad>>
Dump == PrintT("EDGE " \o ToJson([s |-> st, i |-> last', t |-> st']))
=============================================================================
