SPECIFICATION GSpec
CONSTANTS
  TxnIds = {1,2,3,4}
  Sids = {1,2}
  MaxSteps = 60
VIEW GView
ACTION_CONSTRAINT Dump
INVARIANT C10
CHECK_DEADLOCK FALSE
