SPECIFICATION Spec
CONSTANTS
  ReqIds = {0,1,2}
  StreamIds = {1,2}
  Msids = {0,1,2}
  MaxSteps = 7
INVARIANTS C09 Agree
CHECK_DEADLOCK FALSE
