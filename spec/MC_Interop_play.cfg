SPECIFICATION Spec
CONSTANTS
  Scenario = "play"
  N = 2
  Cap = 3
INVARIANT Safe
PROPERTY Live
CHECK_DEADLOCK FALSE
