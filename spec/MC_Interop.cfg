SPECIFICATION Spec
CONSTANTS
  Scenario = "publish"
  N = 2
  Cap = 3
INVARIANT Safe
PROPERTY Live
CHECK_DEADLOCK FALSE
