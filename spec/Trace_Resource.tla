--------------------------- MODULE Trace_Resource ---------------------------
(***************************************************************************)
(* The call/return alphabet and resource envelope of every entry point     *)
(* that takes peer bytes or configuration values (C03, C14, C19).          *)
(*                                                                         *)
(* The only actions are Call and Return(ok | err).  There is NO action for *)
(* a panic (caught unwind: arithmetic overflow, index out of range, ...),  *)
(* for a call that never returns (stack overflow, abort, kill by a         *)
(* resource limit) or for a timeout: such a log has no behaviour in this   *)
(* specification, which is the verdict.                                    *)
(*                                                                         *)
(* Resource envelope, evaluated on every Return (sizes in KiB so that they *)
(* stay inside TLC's integers):                                            *)
(*   peak <= Factor * received + Slack   (Factor 256: a one-byte AMF0      *)
(*   value becomes a 56-byte enum in a doubling Vec: ~168 bytes per input  *)
(*   byte; Slack 48 MiB for C03/C19 = one maximum message in flight plus   *)
(*   its decoded copy; 1 MiB for C14)                                      *)
(*   elapsed <= LimitMs                                                    *)
(*                                                                         *)
(* C19 adds what each configuration class must do:                         *)
(*   chunk size: honoured iff 1 <= v <= 2^31-1, otherwise refused          *)
(*   payload length: honoured iff <= 16777215; string / name length iff    *)
(*   <= 65535 (names also >= 1); window / bandwidth / version: any value   *)
(*   is honoured                                                           *)
(***************************************************************************)
EXTENDS Naturals, Sequences, TLC, Json, IOUtils

CONSTANTS Factor, SlackK, LimitMs

Rec == ndJsonDeserialize(IOEnv.TRACE)
NRec == Len(Rec)
VARIABLES l, open, fin
vars == <<l, open, fin>>
Ev == Rec[l]
Init == l = 1 /\ open = 0 /\ fin = FALSE
Say(class, why) == PrintT("@@VERDICT|" \o class \o "|" \o why \o "|" \o ToString(l))

\* C19: must a configuration value of this class be honoured?  v is a word <<hi, lo>> or a plain length
Honoured(e) ==
    CASE e.cfg = "chunk_size" -> e.v # <<0, 0>> /\ e.v[1] < 32768
      [] e.cfg = "chunk_size_wide" -> FALSE      \* hi * 2^32 + v with hi >= 1: above 2^31 - 1 whatever the low half is
      [] e.cfg = "payload_len" -> e.n <= 16777215
      [] e.cfg = "string_len" -> e.n <= 65535
      [] e.cfg = "name_len" -> e.n >= 1 /\ e.n <= 65535
      [] OTHER -> TRUE

DoCall == /\ IF open # 0 THEN Say("TOOL", "call logged while another call is open") ELSE TRUE
          /\ open' = Ev.id

DoReturn ==
    /\ IF open # Ev.id THEN Say("TOOL", "return without a matching call")
       ELSE IF Ev.res \notin {"ok", "err"} THEN Say("RES", "call neither returned a value nor an error: " \o Ev.res)
       ELSE IF Ev.peakK > Factor * Ev.rxK + SlackK THEN Say("RES", "allocation exceeds the envelope (a small multiple of the bytes received plus one maximum message)")
       ELSE IF Ev.ms > LimitMs THEN Say("RES", "call exceeded the time envelope")
       ELSE IF "cfg" \in DOMAIN Ev /\ Honoured(Ev) /\ Ev.res # "ok" THEN Say("CFG", "a value the protocol can express was refused (" \o Ev.cfg \o ")")
       ELSE IF "cfg" \in DOMAIN Ev /\ ~Honoured(Ev) /\ Ev.res = "ok" THEN Say("CFG", "a value the protocol cannot express was accepted (" \o Ev.cfg \o ")")
       ELSE IF "cfg" \in DOMAIN Ev /\ Honoured(Ev) /\ ~Ev.works THEN Say("CFG", "accepted value does not yield a working codec or session (" \o Ev.cfg \o ")")
       ELSE TRUE
    /\ open' = 0

\* events the specification has no action for
DoDied == /\ Say("RES", "call did not return: " \o Ev.how) /\ open' = 0

Step == /\ l <= NRec
        /\ CASE Ev.ev = "Call" -> DoCall
             [] Ev.ev = "Return" -> DoReturn
             [] Ev.ev \in {"Died", "Timeout"} -> DoDied
             [] OTHER -> UNCHANGED open
        /\ l' = l + 1 /\ UNCHANGED fin
Finish == l = NRec + 1 /\ ~fin /\ fin' = TRUE /\ UNCHANGED <<l, open>> /\ PrintT("@@ACCEPT|" \o ToString(NRec) \o "|0")
Next == Step \/ Finish
Spec == Init /\ [][Next]_vars
=============================================================================
