--------------------------- MODULE ServerSession ---------------------------
(***************************************************************************)
(* The server session as a message-level state machine: one step per       *)
(* inbound message and per application call.  SrvStep(st, i) is a pure     *)
(* function from (state, input) to (state', expected observations), so     *)
(* that the SAME definition is                                             *)
(*   - explored exhaustively over small domains by MC_Server, where        *)
(*     history variables restate property C09 independently of this        *)
(*     state machine and TLC checks the two agree in every history;        *)
(*   - replayed over logs of the real ServerSession by Trace_Server, with  *)
(*     the inputs, fresh ids and observations taken from the log.          *)
(*                                                                         *)
(* State st = [conn, app, reqs, ireq, streams, istream]                    *)
(*   conn     "started" | "connected"                                      *)
(*   app      <<>> | <<name>>    application of the last accepted connect  *)
(*   reqs     id -> [k, app | key, sid, txn, mode]   outstanding requests  *)
(*   ireq     set of request ids ever issued                               *)
(*   streams  id -> [st, key]  st in created/publishing/playing/completed  *)
(*   istream  set of stream ids ever issued                                *)
(* Fresh ids are INPUTS (i.fresh): "any value never issued before", not    *)
(* "counter + 1" - a different allocation scheme is still accepted.        *)
(*                                                                         *)
(* Observations (what the caller of the session sees), a sequence of       *)
(*   [o |-> "Err"]                       the call returned an error        *)
(*   events   ConnectionRequested, PublishStreamRequested,                 *)
(*            PlayStreamRequested, PublishStreamFinished,                  *)
(*            PlayStreamFinished, Media (audio/video), Metadata            *)
(*   outbound Error(msid, txn), CreateResult(txn, sid), ConnectResult(txn),*)
(*            PublishStart(sid), PlayStart(sid), PlayComplete(sid),        *)
(*            PingResponse(ts), OutMedia(kind, sid), OutMetadata(sid),     *)
(*            OutPing                                                      *)
(* Names and keys are byte tuples; they are only compared for equality,    *)
(* except for the one trailing "/" a connect request may carry.            *)
(***************************************************************************)
EXTENDS Naturals, Sequences, TLC, FiniteSets

NoF == <<>>
Put(f, k, v) == (k :> v) @@ f
Drop(f, k) == [x \in (DOMAIN f) \ {k} |-> f[x]]

SrvInit == [conn |-> "started", app |-> <<>>, reqs |-> NoF, ireq |-> {},
            streams |-> NoF, istream |-> {}]

StripSlash(a) == IF Len(a) > 0 /\ a[Len(a)] = 47 THEN SubSeq(a, 1, Len(a) - 1) ELSE a

R(st, obs) == [st |-> st, obs |-> obs]
ErrObs == <<[o |-> "Err"]>>

Connected(st) == st.conn = "connected" /\ st.app # <<>>
StreamIs(st, s, what) == s \in DOMAIN st.streams /\ st.streams[s].st = what

FinishedObs(st, s) ==
    IF StreamIs(st, s, "publishing") THEN <<[o |-> "PublishStreamFinished", app |-> st.app[1], key |-> st.streams[s].key]>>
    ELSE IF StreamIs(st, s, "playing") THEN <<[o |-> "PlayStreamFinished", app |-> st.app[1], key |-> st.streams[s].key]>>
    ELSE <<>>

\* ------------------------------------------------------------------ inbound messages
SrvIn(st, i) ==
    CASE i.m = "connect" ->
            IF i.appkind # "ok" THEN R(st, ErrObs)
            ELSE LET a == StripSlash(i.app) IN
                 R([st EXCEPT !.reqs = Put(st.reqs, i.fresh, [k |-> "connect", app |-> a, txn |-> i.txn]),
                              !.ireq = st.ireq \cup {i.fresh}],
                   <<[o |-> "ConnectionRequested", req |-> i.fresh, app |-> a]>>)
      [] i.m = "createStream" ->
            R([st EXCEPT !.streams = Put(st.streams, i.fresh, [st |-> "created", key |-> <<>>]),
                         !.istream = st.istream \cup {i.fresh}],
              <<[o |-> "CreateResult", txn |-> i.txn, sid |-> i.fresh]>>)
      [] i.m = "publish" ->
            IF i.args # "ok" \/ ~Connected(st) THEN R(st, <<[o |-> "Error", msid |-> i.msid, txn |-> i.txn]>>)
            ELSE R([st EXCEPT !.reqs = Put(st.reqs, i.fresh, [k |-> "publish", key |-> i.key, sid |-> i.msid, mode |-> i.mode]),
                              !.ireq = st.ireq \cup {i.fresh}],
                   <<[o |-> "PublishStreamRequested", req |-> i.fresh, app |-> st.app[1], key |-> i.key, mode |-> i.mode]>>)
      [] i.m = "play" ->
            IF i.args # "ok" \/ ~Connected(st) THEN R(st, <<[o |-> "Error", msid |-> i.msid, txn |-> i.txn]>>)
            ELSE R([st EXCEPT !.reqs = Put(st.reqs, i.fresh, [k |-> "play", key |-> i.key, sid |-> i.msid]),
                              !.ireq = st.ireq \cup {i.fresh}],
                   <<[o |-> "PlayStreamRequested", req |-> i.fresh, app |-> st.app[1], key |-> i.key, sid |-> i.msid]>>)
      [] i.m \in {"closeStream", "deleteStream"} ->
            IF ~Connected(st) \/ i.arg # "num" \/ i.sid \notin DOMAIN st.streams THEN R(st, <<>>)
            ELSE R([st EXCEPT !.streams = IF i.m = "deleteStream" THEN Drop(st.streams, i.sid)
                                          ELSE Put(st.streams, i.sid, [st |-> "created", key |-> <<>>])],
                   FinishedObs(st, i.sid))
      [] i.m \in {"audio", "video"} ->
            IF Connected(st) /\ StreamIs(st, i.msid, "publishing")
            THEN R(st, <<[o |-> "Media", kind |-> i.m, app |-> st.app[1], key |-> st.streams[i.msid].key, ts |-> i.ts]>>)
            ELSE R(st, <<>>)
      [] i.m = "setDataFrame" ->
            \* only the well-formed shape is constrained; malformed shapes are "no requirement" (see Trace_Server)
            IF i.shape = "ok" /\ Connected(st) /\ StreamIs(st, i.msid, "publishing")
            THEN R(st, <<[o |-> "Metadata", app |-> st.app[1], key |-> st.streams[i.msid].key]>>)
            ELSE R(st, <<>>)
      [] i.m = "pingreq"  -> R(st, <<[o |-> "PingResponse", ts |-> i.ts]>>)
      [] OTHER -> R(st, <<>>)      \* pingresp, ack, winack, setcs, setpeerbw, abort, unknown command / type

\* ------------------------------------------------------------------ application calls
SrvCall(st, i) ==
    CASE i.m \in {"accept", "reject"} ->
            IF i.id \notin DOMAIN st.reqs THEN R(st, ErrObs)
            ELSE LET rq == st.reqs[i.id]
                     st1 == [st EXCEPT !.reqs = Drop(st.reqs, i.id)]
                 IN
                 IF i.m = "reject" THEN
                     R(st1, <<[o |-> "Error", msid |-> IF rq.k = "connect" THEN 0 ELSE rq.sid,
                               txn |-> IF rq.k = "connect" THEN rq.txn ELSE i.zero]>>)
                 ELSE IF rq.k = "connect" THEN
                     R([st1 EXCEPT !.conn = "connected", !.app = <<rq.app>>], <<[o |-> "ConnectResult", txn |-> rq.txn]>>)
                 ELSE IF rq.sid \notin DOMAIN st.streams THEN R(st1, ErrObs)
                 ELSE IF rq.k = "publish" THEN
                     R([st1 EXCEPT !.streams = Put(st.streams, rq.sid, [st |-> "publishing", key |-> rq.key])],
                       <<[o |-> "PublishStart", sid |-> rq.sid]>>)
                 ELSE
                     R([st1 EXCEPT !.streams = Put(st.streams, rq.sid, [st |-> "playing", key |-> rq.key])],
                       <<[o |-> "PlayStart", sid |-> rq.sid]>>)
      [] i.m = "finish_playing" ->
            IF StreamIs(st, i.sid, "playing")
            THEN R([st EXCEPT !.streams = Put(st.streams, i.sid, [st |-> "completed", key |-> <<>>])],
                   <<[o |-> "PlayComplete", sid |-> i.sid]>>)
            ELSE R(st, ErrObs)
      [] i.m \in {"send_audio", "send_video"} -> R(st, <<[o |-> "OutMedia", kind |-> i.m, sid |-> i.sid, ts |-> i.ts, drop |-> i.drop]>>)
      [] i.m = "send_metadata" -> R(st, <<[o |-> "OutMetadata", sid |-> i.sid]>>)
      [] i.m = "send_ping" -> R(st, <<[o |-> "OutPing"]>>)

IsCall(i) == i.m \in {"accept", "reject", "finish_playing", "send_audio", "send_video", "send_metadata", "send_ping"}

SrvStep(st, i) == IF IsCall(i) THEN SrvCall(st, i) ELSE SrvIn(st, i)
=============================================================================
