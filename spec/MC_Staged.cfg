SPECIFICATION Spec
CONSTANTS
  Widths <- W1
  Eager = FALSE
INVARIANT PartitionIndependent
CHECK_DEADLOCK FALSE
