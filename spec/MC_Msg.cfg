SPECIFICATION Spec
INVARIANTS Sound Injective Aliases Sizes
CHECK_DEADLOCK FALSE
