----------------------------- MODULE ClockFlat -----------------------------
(***************************************************************************)
(* RTMP timestamps as a wrap-around clock (C20) over unbounded integers,   *)
(* for Apalache: ALL pairs (a, d) in [0, 2^32)^2 symbolically.             *)
(*                                                                         *)
(* Impl*  : a transcription of rtmp/src/time.rs (wrapping add/sub; compare *)
(*          via max/min/difference <= 2^31-1)                              *)
(* Later  : the DEFINITION: a is later than b iff a is 1 .. 2^31-1 ahead   *)
(*          of b modulo 2^32                                               *)
(***************************************************************************)
EXTENDS Integers

CONSTANT
    \* @type: Int;
    M          \* 2^32
VARIABLES
    \* @type: Int;
    a,
    \* @type: Int;
    d

H == M \div 2

ImplAdd(x, y) == (x + y) % M
ImplSub(x, y) == (x - y + M) % M
\* compare(): -1 less, 0 equal, 1 greater
ImplCmp(x, y) ==
    LET mx == IF x > y THEN x ELSE y
        mn == IF x > y THEN y ELSE x
        plain == IF x < y THEN -1 ELSE IF x = y THEN 0 ELSE 1
    IN IF mx - mn <= H - 1 THEN plain ELSE -plain

Ahead(x, y) == (x - y + M) % M
Later(x, y) == Ahead(x, y) >= 1 /\ Ahead(x, y) <= H - 1

Init == a \in Int /\ d \in Int /\ a >= 0 /\ a < M /\ d >= 0 /\ d < M
Next == UNCHANGED <<a, d>>

b == ImplAdd(a, d)

AddSubInverse == ImplSub(ImplAdd(a, d), d) = a /\ ImplAdd(ImplSub(a, d), d) = a
ExactModulo   == ImplAdd(a, d) >= 0 /\ ImplAdd(a, d) < M /\ (ImplAdd(a, d) = a + d \/ ImplAdd(a, d) = a + d - M)
EqualIff      == (ImplCmp(a, d) = 0) <=> (a = d)
Antisymmetric == ImplCmp(a, d) = -ImplCmp(d, a)
\* order of a versus a + d: later exactly when 1 .. 2^31-1 ahead; earlier when 2^31+1 .. 2^32-1 ahead
OrderOfSum    == /\ (d >= 1 /\ d <= H - 1) => (ImplCmp(b, a) = 1 /\ ImplCmp(a, b) = -1)
                 /\ (d >= H + 1) => (ImplCmp(b, a) = -1 /\ ImplCmp(a, b) = 1)
                 /\ (d = 0) => ImplCmp(b, a) = 0
AgreesWithLater == (a # d /\ Ahead(a, d) # H) => ((ImplCmp(a, d) = 1) <=> Later(a, d))
\* at distance exactly 2^31 a total order must pick one side: only totality is required there
Antipodal     == (Ahead(a, d) = H) => (ImplCmp(a, d) \in {-1, 1})

Inv == AddSubInverse /\ ExactModulo /\ EqualIff /\ Antisymmetric /\ OrderOfSum /\ AgreesWithLater /\ Antipodal
=============================================================================
