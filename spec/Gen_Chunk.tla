----------------------------- MODULE Gen_Chunk -----------------------------
(***************************************************************************)
(* Stage S2 for the chunk layer: TLC enumerates serializer call sequences  *)
(* at the REAL constants (words modulo 2^32, saturation at 0xFFFFFF) over  *)
(* a small alphabet of timestamps, lengths and chunk sizes chosen around   *)
(* every case distinction of the header-compression rules.  Each step is   *)
(* classified with the specification's own operators (format chosen by the *)
(* transcribed policy, extended timestamp needed, number of chunks, was    *)
(* the predecessor droppable, ...), and the VIEW keeps ONE representative  *)
(* behaviour per window of the last K classes: what TLC prints is a cover  *)
(* of all reachable class windows, one concrete behaviour for each.        *)
(* The harness replays every printed behaviour through the real            *)
(* ChunkSerializer / ChunkDeserializer (vharness chunk gen) and the        *)
(* recorded run is judged by Trace_Chunk like any other.                   *)
(*                                                                         *)
(* While generating, the same run checks the design at the real constants: *)
(* every generated message goes through the reference receiver Rx and      *)
(* must come out exactly (Delivered), and the policy must stay inside      *)
(* TxLegal (with the droppable rule).                                      *)
(***************************************************************************)
EXTENDS ChunkProto, FiniteSets, Json

CONSTANTS MaxSteps,     \* length of the generated behaviours
          K,            \* class window kept by the VIEW
          Fine          \* finer step classes (thorough tier)

ThrReal == <<255, 65535>>

VARIABLES tx,      \* sender memory: csid -> header (+ drop flag), as in MC_Chunk
          txcs,    \* chunk size in force at the sender
          rx,      \* reference receiver state
          hist,    \* the steps taken (printed)
          cls,     \* their classes (VIEW)
          err

vars == <<tx, txcs, rx, hist, cls, err>>

W(n) == FromNat(n)
\* timestamps: equal deltas (0,40,80,120), deltas just below / at / above the saturation threshold
\* (40 -> 16777254 / 16777255 / 16777256), absolute values around it, and the wrap (2^32-10 -> 30)
TsSet == {W(0), W(30), W(40), W(80), W(120), W(16777214), W(16777215), W(16777216),
          W(16777254), W(16777255), W(16777256), <<65535, 65526>>}
Sizes == {32, 128, 4096}
LenSet(cs) == {0, 10, cs, cs + 1, 2 * cs, 2 * cs + 5}
Types == {8, 9}

---------------------------------------------------------------------------
\* all chunks of one message through the reference receiver
RECURSIVE FeedRest(_, _, _, _, _)
FeedRest(st, h, c, got, m) ==
    IF got = h.len THEN [st |-> st, err |-> "message not delivered with its last chunk"]
    ELSE LET ch == TxCont(h, c, got, st.cs)
             r  == Rx(st, ch)
         IN  IF r.err # "ok" THEN [st |-> st, err |-> r.err]
             ELSE IF got + ch.n = h.len
                  THEN [st |-> r.st, err |-> IF r.out = <<m>> THEN "ok" ELSE "delivered message differs from sent message"]
                  ELSE IF r.out # <<>> THEN [st |-> r.st, err |-> "message delivered early"]
                  ELSE FeedRest(r.st, h, c, got + ch.n, m)

FeedMsg(st, m, h, c, fmt) ==
    LET ch == TxFirst(tx, m, c, fmt, txcs)
        r  == Rx(st, ch)
    IN  IF r.err # "ok" THEN [st |-> st, err |-> r.err]
        ELSE IF ch.n = m.len
             THEN [st |-> r.st, err |-> IF r.out = <<m>> THEN "ok" ELSE "delivered message differs from sent message"]
             ELSE IF r.out # <<>> THEN [st |-> r.st, err |-> "message delivered early"]
             ELSE FeedRest(r.st, h, c, ch.n, m)

---------------------------------------------------------------------------
\* step classes
LenClass(len, cs) ==
    IF ~Fine THEN (IF len = 0 THEN "empty" ELSE IF len <= cs THEN "single" ELSE "multi")
    ELSE IF len = 0 THEN "empty" ELSE IF len < cs THEN "short" ELSE IF len = cs THEN "exact1"
    ELSE IF len = 2 * cs THEN "exact2" ELSE IF len < 2 * cs THEN "two" ELSE "three"

DataClass(m, c, fmt, full, cd, dropped) ==
    LET known == c \in DOMAIN tx
        v     == TxVal(tx, m, c, fmt)
        fld   == IF fmt = 3 THEN tx[c].field ELSE Cap(v)
    IN  <<"data", c, fmt, NeedsExt(fld), LenClass(m.len, txcs), full, cd, dropped,
          known /\ tx[c].drop,
          IF Fine THEN <<known /\ Lt(m.ts, tx[c].ts), v = ThrReal, known /\ m.msid # tx[c].msid,
                         known /\ m.len # tx[c].len>>
          ELSE <<>> >>

Push(s, x) == Append(s, x)

Data(ty, msid, ts, len, full, cd, dropped) ==
    LET c   == LibCsid(ty)
        m   == [ty |-> ty, msid |-> msid, ts |-> ts, len |-> len]
        fmt == LibFmt(tx, m, c, full)
        h   == TxHdr(tx, m, c, fmt, cd)
        r   == IF dropped THEN [st |-> rx, err |-> "ok"] ELSE FeedMsg(rx, m, h, c, fmt)
    IN  /\ (dropped => cd)
        /\ tx' = Upd(tx, c, h)
        /\ rx' = r.st
        /\ err' = IF ~TxLegal(tx, m, c, fmt, TRUE) THEN "policy chose an illegal format" ELSE r.err
        /\ hist' = Push(hist, [k |-> "data", ty |-> ty, msid |-> msid, ts |-> ts, len |-> len, full |-> full,
                               cd |-> cd, dropped |-> dropped, fmt |-> fmt, size |-> 0])
        /\ cls' = Push(cls, DataClass(m, c, fmt, full, cd, dropped))
        /\ UNCHANGED txcs

\* the serializer's own chunk size change: a forced-full control message on csid 2, new size in force afterwards
SetCS(size, ts) ==
    LET c == 2
        m == [ty |-> 1, msid |-> 0, ts |-> ts, len |-> 4]
        h == TxHdr(tx, m, c, 0, FALSE)
        r == FeedMsg(rx, m, h, c, 0)
    IN  /\ tx' = Upd(tx, c, h)
        /\ rx' = [r.st EXCEPT !.cs = size]
        /\ txcs' = size
        /\ err' = r.err
        /\ hist' = Push(hist, [k |-> "setcs", ty |-> 1, msid |-> 0, ts |-> ts, len |-> 4, full |-> TRUE,
                               cd |-> FALSE, dropped |-> FALSE, fmt |-> 0, size |-> size])
        /\ cls' = Push(cls, <<"setcs", IF size < txcs THEN "smaller" ELSE IF size = txcs THEN "same" ELSE "larger",
                              NeedsExt(Cap(ts))>>)

\* a message the protocol cannot express (payload of 2^24 bytes): refused, nothing changes
Refused(ty, cd) ==
    LET c == LibCsid(ty) IN
    /\ hist' = Push(hist, [k |-> "refused", ty |-> ty, msid |-> 1, ts |-> W(7), len |-> 16777216, full |-> FALSE,
                           cd |-> cd, dropped |-> FALSE, fmt |-> 0, size |-> 0])
    /\ cls' = Push(cls, <<"refused", c, cd, c \in DOMAIN tx /\ tx[c].drop>>)
    /\ UNCHANGED <<tx, txcs, rx, err>>

Init == /\ tx = NoFn /\ txcs = 128 /\ rx = RxInit(128) /\ hist = <<>> /\ cls = <<>> /\ err = "ok"

Next ==
    /\ Len(hist) < MaxSteps
    /\ err = "ok"
    /\ \/ \E ty \in Types, msid \in {1, 2}, ts \in TsSet, len \in LenSet(txcs),
            full \in BOOLEAN, cd \in BOOLEAN, dropped \in BOOLEAN :
              Data(ty, msid, ts, len, full, cd, dropped)
       \/ \E size \in Sizes, ts \in {W(0), W(16777215)} : SetCS(size, ts)
       \/ \E ty \in Types, cd \in BOOLEAN : Refused(ty, cd)

Spec == Init /\ [][Next]_vars

\* one representative per window of the last K classes (and position)
LastK(s) == IF Len(s) <= K THEN s ELSE SubSeq(s, Len(s) - K + 1, Len(s))
GenView == <<Len(cls), LastK(cls), err>>

Delivered == err = "ok"

\* printed for every representative; the driver drops those that are a prefix of another one
Emit == (Len(hist) > 0) => PrintT("@@PATH|" \o ToJson(hist))
=============================================================================
