----------------------------- MODULE Trace_Msg -----------------------------
(***************************************************************************)
(* Trace validation of message <-> payload conversion (C13).               *)
(*  ToPayload  library from_rtmp_message(msg) -> res, ty, body, and the    *)
(*             library's to_rtmp_message of that payload -> bres, back     *)
(*     MSG  ty/body must be the layout RtmpMsg prescribes for msg;         *)
(*          back must equal msg; refusal only for ill-formed messages      *)
(*  ToMessage  library to_rtmp_message(ty, body) for harness-made bodies   *)
(*     class conf     body is the reference layout of `intent` (incl. ids  *)
(*                    15/17)            -> result must equal intent        *)
(*     class unknown  id outside the known set -> passthrough, untouched   *)
(*     class bigcs    SetChunkSize body with the top bit set -> error      *)
(***************************************************************************)
EXTENDS RtmpMsg, Json, IOUtils

Rec == ndJsonDeserialize(IOEnv.TRACE)
NRec == Len(Rec)
VARIABLES l, fin
vars == <<l, fin>>
Ev == Rec[l]
Init == l = 1 /\ fin = FALSE
Say(class, why) == PrintT("@@VERDICT|" \o class \o "|" \o why \o "|" \o ToString(l))

ToPayload ==
    LET M == Ev.msg IN
    IF Ev.res # "ok" THEN
        IF WellFormed(M) THEN Say("MSG", "conversion refused a well-formed message: " \o Ev.res) ELSE TRUE
    ELSE IF ~WellFormed(M) THEN
        IF M.k = "SetChunkSize" THEN Say("MSG", "chunk size above 2^31-1 was not rejected when encoding") ELSE TRUE
    ELSE IF Ev.ty # TypeOf(M) THEN Say("MSG", "wrong message type id for " \o M.k)
    ELSE IF ~Matches(M, Ev.ty, Ev.body, FALSE) THEN Say("MSG", "body layout differs from the specification for " \o M.k)
    ELSE IF Ev.bres # "ok" THEN Say("MSG", "payload does not convert back: " \o Ev.bres)
    ELSE IF ~MsgEq(Ev.back, M) THEN Say("MSG", "payload converts back to a different message (" \o M.k \o ")")
    ELSE TRUE

ToMessage ==
    CASE Ev.class = "conf" ->
            IF ~Matches(Ev.intent, Ev.ty, Ev.body, TRUE) THEN Say("TOOL", "harness body is not the reference layout of its intent")
            ELSE IF Ev.res # "ok" THEN Say("MSG", "decoder rejected a conformant body: " \o Ev.res)
            ELSE IF ~MsgEq(Ev.msg, Ev.intent) THEN Say("MSG", "decoded message differs from what the body denotes (" \o Ev.intent.k \o ")")
            ELSE TRUE
      [] Ev.class = "unknown" ->
            IF Ev.ty \in KnownIds THEN Say("TOOL", "class unknown with a known id")
            ELSE IF Ev.res # "ok" THEN Say("MSG", "unknown type id not passed through: " \o Ev.res)
            ELSE IF ~(Ev.msg.k = "Unknown" /\ Ev.msg.ty = Ev.ty /\ BytesEq(Ev.msg.data, Ev.body))
                 THEN Say("MSG", "unknown type id: bytes or id not passed through untouched")
            ELSE TRUE
      [] Ev.class = "bigcs" ->
            IF ~(Ev.ty = 1 /\ BLen(Ev.body) = 4 /\ ByteAt(Ev.body, Start) >= 128) THEN Say("TOOL", "class bigcs malformed")
            ELSE IF Ev.res = "ok" THEN Say("MSG", "chunk size above 2^31-1 was not rejected when decoding")
            ELSE TRUE

Step == /\ l <= NRec
        /\ CASE Ev.ev = "ToPayload" -> ToPayload
             [] Ev.ev = "ToMessage" -> ToMessage
             [] OTHER -> TRUE
        /\ l' = l + 1 /\ UNCHANGED fin
Finish == /\ l = NRec + 1 /\ ~fin /\ fin' = TRUE /\ UNCHANGED l
          /\ PrintT("@@ACCEPT|" \o ToString(NRec) \o "|0")
Next == Step \/ Finish
Spec == Init /\ [][Next]_vars
=============================================================================
