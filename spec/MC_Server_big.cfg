SPECIFICATION Spec
CONSTANTS
  ReqIds = {0,1,2,3}
  StreamIds = {1,2}
  Msids = {0,1,2,3}
  MaxSteps = 60
INVARIANTS C09 Agree
VIEW View
CHECK_DEADLOCK FALSE
