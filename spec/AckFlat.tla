------------------------------ MODULE AckFlat ------------------------------
(***************************************************************************)
(* Acknowledgement accounting (C17) over unbounded integers, for Apalache  *)
(* (symbolic: all windows 1 .. 2^32-1, all call sizes) and TLC (small).    *)
(* One step = one input call of n bytes that may also (re)announce a       *)
(* window w, which applies from the next call on.                          *)
(*   known/win   a window has been announced / its value                   *)
(*   pend        bytes received and not yet acknowledged                   *)
(*   rx, acked   bytes counted since the window was learned / acknowledged *)
(*   emitted     value of the acknowledgement emitted by the last call, -1 *)
(*   wcall       window in force during the last call (0: none)            *)
(***************************************************************************)
EXTENDS Integers

CONSTANTS
    \* @type: Int;
    M,          \* 2^32 (or a small bound for TLC)
    \* @type: Int;
    MaxN        \* largest call size considered by TLC (Apalache: any)

VARIABLES
    \* @type: Bool;
    known,
    \* @type: Int;
    win,
    \* @type: Int;
    pend,
    \* @type: Int;
    rx,
    \* @type: Int;
    acked,
    \* @type: Int;
    emitted,
    \* @type: Int;
    wcall

vars == <<known, win, pend, rx, acked, emitted, wcall>>

Init == /\ known = FALSE /\ win = 0 /\ pend = 0 /\ rx = 0 /\ acked = 0 /\ emitted = -1 /\ wcall = 0

\* @type: (Int, Bool, Int) => Bool;
Input(n, learn, w) ==
    /\ IF known
       THEN /\ rx' = rx + n /\ wcall' = win
            /\ IF pend + n >= win
               THEN emitted' = pend + n /\ pend' = 0 /\ acked' = acked + pend + n
               ELSE emitted' = -1 /\ pend' = pend + n /\ acked' = acked
       ELSE emitted' = -1 /\ wcall' = 0 /\ UNCHANGED <<pend, acked, rx>>
    /\ known' = (known \/ learn)
    /\ win' = IF learn THEN w ELSE win

Next == \E n \in 0 .. MaxN, learn \in BOOLEAN, w \in 1 .. (M - 1) : Input(n, learn, w)

\* Apalache: quantify over all naturals symbolically
NextSym == \E n \in Nat, learn \in BOOLEAN, w \in Int : w >= 1 /\ w < M /\ Input(n, learn, w)

Spec == Init /\ [][Next]_vars

TypeInv == /\ known \in BOOLEAN /\ win \in Int /\ pend \in Int /\ rx \in Int /\ acked \in Int /\ emitted \in Int /\ wcall \in Int
           /\ win >= 0 /\ pend >= 0 /\ rx >= 0 /\ acked >= 0 /\ emitted >= -1 /\ wcall >= 0
           /\ (known => win >= 1) /\ win < M /\ wcall < M

\* property C17
Conservation == acked + pend = rx                       \* no byte acknowledged twice or never
Outstanding  == wcall > 0 => pend < wcall               \* fewer than W outstanding after every call
ExactlyWhen  == /\ (emitted # -1 => wcall > 0 /\ emitted >= wcall /\ pend = 0)
                /\ (emitted = -1 /\ wcall > 0 => pend < wcall)
NothingBefore == ~known => (rx = 0 /\ acked = 0 /\ pend = 0 /\ emitted = -1)

Inv == TypeInv /\ Conservation /\ Outstanding /\ ExactlyWhen /\ NothingBefore

Bound == rx <= 30

\* for the inductive step: start anywhere inside Inv
IndInit == /\ known \in BOOLEAN /\ win \in Int /\ pend \in Int /\ rx \in Int /\ acked \in Int
           /\ emitted \in Int /\ wcall \in Int /\ Inv
=============================================================================
