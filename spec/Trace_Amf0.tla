----------------------------- MODULE Trace_Amf0 -----------------------------
(***************************************************************************)
(* Trace validation of the AMF0 codec against the reference of Amf0.tla.   *)
(*                                                                         *)
(*  Enc   library serialize(vals) -> res, bytes; then library              *)
(*        deserialize(bytes) -> dres, dvals                                *)
(*     ENC  the bytes must be a specification-conformant encoding of vals  *)
(*          (reference decoder returns vals, objects as maps)       [C12]  *)
(*          and a refusal is legal only for what the format cannot express *)
(*     RT   decoding them must give back vals, consuming everything [C04]  *)
(*  Dec   library deserialize(bytes) for bytes built by the harness:       *)
(*     class conf   a reference encoding of `intent` (any property order,  *)
(*                  ECMA arrays, any non-zero boolean byte)                *)
(*     class bad    an unsupported marker at a value position              *)
(*     class trunc  a strict prefix of a reference encoding of `intent`    *)
(*     class ref    an encoding printed by TLC from Gen_Amf0 (S2)          *)
(*     class refcut a strict prefix of such an encoding                    *)
(*     DEC  result must be what the bytes denote / an error / an error or  *)
(*          a truncation-prefix respectively                        [C12]  *)
(* A harness encoding that the reference decoder does not read back as the *)
(* intent is a TOOL verdict.                                               *)
(***************************************************************************)
EXTENDS Amf0, Json, IOUtils

Rec == ndJsonDeserialize(IOEnv.TRACE)
NRec == Len(Rec)

VARIABLES l, fin
vars == <<l, fin>>
Ev == Rec[l]

Init == l = 1 /\ fin = FALSE

Say(class, why) == PrintT("@@VERDICT|" \o class \o "|" \o why \o "|" \o ToString(l))

IsOk(r) == r = "ok"

EncStep ==
    LET vals == NormSeq(Ev.vals)
        repr == \A i \in 1 .. Len(vals) : Representable(vals[i])
        \* ENC (C12, and the "cannot express" part of C04/C19): judged by the reference decoder
        encPart ==
            IF ~IsOk(Ev.res) THEN
                IF repr THEN Say("ENC", "encoder refused a value the format can express: " \o Ev.res) ELSE TRUE
            ELSE IF ~repr THEN Say("ENC", "encoder accepted a value the format cannot express (name or string length)")
            ELSE LET ref == DecAll(Ev.bytes) IN
                 IF ~ref.ok THEN Say("ENC", "encoder output is not a conformant encoding: " \o ref.why)
                 ELSE IF ~SeqEq(ref.vs, vals) THEN Say("ENC", "encoder output denotes a different value")
                 ELSE TRUE
        \* RT (C04): judged independently of ENC - the library's own decoder on the library's own bytes
        rtPart ==
            IF ~IsOk(Ev.res) THEN TRUE
            ELSE IF ~IsOk(Ev.dres) THEN Say("RT", "encoded bytes fail to decode: " \o Ev.dres)
            ELSE IF Ev.dleft # 0 THEN Say("RT", "decoding did not consume all encoded bytes")
            ELSE IF ~SeqEq(NormSeq(Ev.dvals), vals) THEN Say("RT", "decode(encode(v)) differs from v")
            ELSE TRUE
    IN encPart /\ rtPart

DecStep ==
    LET ref == DecAll(Ev.bytes) IN
    CASE Ev.class = "conf" ->
            IF ~ref.ok \/ ~SeqEq(ref.vs, NormSeq(Ev.intent))
            THEN Say("TOOL", "harness reference encoding is not read back as its intent by the reference decoder")
            ELSE IF ~IsOk(Ev.res) THEN Say("DEC", "decoder rejected a conformant encoding: " \o Ev.res)
            ELSE IF ~SeqEq(NormSeq(Ev.vals), ref.vs) THEN Say("DEC", "decoder returned a different value than the encoding denotes")
            ELSE TRUE
      [] Ev.class = "ref" ->        \* bytes printed by TLC from the reference encoder (Gen_Amf0)
            IF ~ref.ok THEN Say("TOOL", "generated reference encoding is rejected by the reference decoder")
            ELSE IF ~IsOk(Ev.res) THEN Say("DEC", "decoder rejected a conformant encoding: " \o Ev.res)
            ELSE IF ~SeqEq(NormSeq(Ev.vals), ref.vs) THEN Say("DEC", "decoder returned a different value than the encoding denotes")
            ELSE TRUE
      [] Ev.class = "refcut" ->     \* a strict prefix of such an encoding (Ev.full)
            LET full == DecAll(Ev.full) IN
            IF ~full.ok THEN Say("TOOL", "generated reference encoding is rejected by the reference decoder")
            ELSE IF ~IsOk(Ev.res) THEN TRUE
            ELSE IF ref.ok /\ ~SeqEq(NormSeq(Ev.vals), ref.vs) THEN Say("DEC", "decoder returned a different value than the (cut at a value boundary) encoding denotes")
            ELSE IF ~TruncRel(NormSeq(Ev.vals), full.vs) THEN Say("DEC", "truncated encoding decoded to data that was not there")
            ELSE TRUE
      [] Ev.class = "bad" ->
            IF ref.ok \/ ref.why # "unsupported marker"
            THEN Say("TOOL", "harness input of class bad has no unsupported marker at a value position")
            ELSE IF IsOk(Ev.res) THEN Say("DEC", "decoder accepted a marker of an unsupported type")
            ELSE TRUE
      [] Ev.class = "trunc" ->
            IF ~IsOk(Ev.res) THEN TRUE
            ELSE IF ref.ok /\ ~SeqEq(NormSeq(Ev.vals), ref.vs) THEN Say("DEC", "decoder returned a different value than the (cut at a value boundary) encoding denotes")
            ELSE IF ~TruncRel(NormSeq(Ev.vals), NormSeq(Ev.intent)) THEN Say("DEC", "truncated encoding decoded to data that was not there")
            ELSE TRUE

\* arrays too large for the reference decoder: the harness compares decode(encode(v)) with v itself
EncBigStep ==
    IF ~IsOk(Ev.res) THEN Say("ENC", "encoder refused a value the format can express: " \o Ev.res)
    ELSE IF ~IsOk(Ev.dres) THEN Say("RT", "encoded bytes fail to decode: " \o Ev.dres)
    ELSE IF ~Ev.same THEN Say("RT", "decode(encode(v)) differs from v (array of " \o ToString(Ev.n) \o " elements)")
    ELSE TRUE

\* a conformant encoding too long for the reference decoder (harness-built, compared in Rust)
DecBigStep ==
    IF ~IsOk(Ev.res) THEN Say("DEC", "decoder rejected a conformant encoding: " \o Ev.res)
    ELSE IF ~Ev.same THEN Say("DEC", "decoder returned a different value than the encoding denotes (" \o ToString(Ev.count) \o " of " \o ToString(Ev.n) \o " values)")
    ELSE TRUE

Step == /\ l <= NRec
        /\ CASE Ev.ev = "Enc" -> EncStep
             [] Ev.ev = "DecBig" -> DecBigStep
             [] Ev.ev = "EncBig" -> EncBigStep
             [] Ev.ev = "Dec" -> DecStep
             [] OTHER -> TRUE
        /\ l' = l + 1 /\ UNCHANGED fin

Finish == /\ l = NRec + 1 /\ ~fin /\ fin' = TRUE /\ UNCHANGED l
          /\ PrintT("@@ACCEPT|" \o ToString(NRec) \o "|0")

Next == Step \/ Finish
Spec == Init /\ [][Next]_vars
=============================================================================
