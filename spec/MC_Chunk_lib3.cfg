SPECIFICATION Spec
CONSTANTS
  Base = 2
  Thr <- ThrMC2
  Csids = {2,4,5}
  Types = {8,9}
  Msids <- MsidsMC
  Lens = {0,1,3}
  Sizes = {1,2}
  MaxMsgs = 3
  CtlLen = 2
  DropRule = TRUE
  Interleave = FALSE
  Policy = "lib"
  Shared = FALSE
INVARIANTS DeliveredExact NoOrphans SizesAgree
CHECK_DEADLOCK FALSE
