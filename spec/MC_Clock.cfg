SPECIFICATION Spec
CONSTANTS
  Base = 16
INVARIANTS Refines Laws
CHECK_DEADLOCK FALSE
