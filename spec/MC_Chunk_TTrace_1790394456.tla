---- MODULE MC_Chunk_TTrace_1790394456 ----
EXTENDS Sequences, TLCExt, Toolbox, Naturals, TLC, MC_Chunk

_expression ==
    LET MC_Chunk_TEExpression == INSTANCE MC_Chunk_TEExpression
    IN MC_Chunk_TEExpression!expression
----

_trace ==
    LET MC_Chunk_TETrace == INSTANCE MC_Chunk_TETrace
    IN MC_Chunk_TETrace!trace
----

_inv ==
    ~(
        TLCGet("level") = Len(_TETrace)
        /\
        flight = ((2 :> [m |-> [ty |-> 8, msid |-> <<0, 0>>, ts |-> <<0, 0>>, len |-> 2], size |-> 0, full |-> FALSE, h |-> [ty |-> 8, msid |-> <<0, 0>>, ts |-> <<0, 0>>, len |-> 2, drop |-> FALSE, field |-> <<0, 0>>, delta |-> <<0, 0>>], got |-> 1]))
        /\
        txcs = (1)
        /\
        tx = ((2 :> [ty |-> 8, msid |-> <<0, 0>>, ts |-> <<0, 0>>, len |-> 2, drop |-> FALSE, field |-> <<0, 0>>, delta |-> <<0, 0>>] @@ 3 :> [ty |-> 8, msid |-> <<0, 0>>, ts |-> <<0, 0>>, len |-> 0, drop |-> FALSE, field |-> <<0, 0>>, delta |-> <<0, 0>>]))
        /\
        err = ("shared buffer holds more bytes than the message announced (length underflow)")
        /\
        nsent = (2)
        /\
        rx = ([cs |-> 1, part |-> (0 :> 1), mem |-> (2 :> [ty |-> 8, msid |-> <<0, 0>>, ts |-> <<0, 0>>, len |-> 2, field |-> <<0, 0>>, delta |-> <<0, 0>>])])
    )
----

_init ==
    /\ txcs = _TETrace[1].txcs
    /\ rx = _TETrace[1].rx
    /\ flight = _TETrace[1].flight
    /\ tx = _TETrace[1].tx
    /\ nsent = _TETrace[1].nsent
    /\ err = _TETrace[1].err
----

_next ==
    /\ \E i,j \in DOMAIN _TETrace:
        /\ \/ /\ j = i + 1
              /\ i = TLCGet("level")
        /\ txcs  = _TETrace[i].txcs
        /\ txcs' = _TETrace[j].txcs
        /\ rx  = _TETrace[i].rx
        /\ rx' = _TETrace[j].rx
        /\ flight  = _TETrace[i].flight
        /\ flight' = _TETrace[j].flight
        /\ tx  = _TETrace[i].tx
        /\ tx' = _TETrace[j].tx
        /\ nsent  = _TETrace[i].nsent
        /\ nsent' = _TETrace[j].nsent
        /\ err  = _TETrace[i].err
        /\ err' = _TETrace[j].err

\* Uncomment the ASSUME below to write the states of the error trace
\* to the given file in Json format. Note that you can pass any tuple
\* to `JsonSerialize`. For example, a sub-sequence of _TETrace.
    \* ASSUME
    \*     LET J == INSTANCE Json
    \*         IN J!JsonSerialize("MC_Chunk_TTrace_1790394456.json", _TETrace)

=============================================================================

 Note that you can extract this module `MC_Chunk_TEExpression`
  to a dedicated file to reuse `expression` (the module in the 
  dedicated `MC_Chunk_TEExpression.tla` file takes precedence 
  over the module `MC_Chunk_TEExpression` below).

---- MODULE MC_Chunk_TEExpression ----
EXTENDS Sequences, TLCExt, Toolbox, Naturals, TLC, MC_Chunk

expression == 
    [
        \* To hide variables of the `MC_Chunk` spec from the error trace,
        \* remove the variables below.  The trace will be written in the order
        \* of the fields of this record.
        txcs |-> txcs
        ,rx |-> rx
        ,flight |-> flight
        ,tx |-> tx
        ,nsent |-> nsent
        ,err |-> err
        
        \* Put additional constant-, state-, and action-level expressions here:
        \* ,_stateNumber |-> _TEPosition
        \* ,_txcsUnchanged |-> txcs = txcs'
        
        \* Format the `txcs` variable as Json value.
        \* ,_txcsJson |->
        \*     LET J == INSTANCE Json
        \*     IN J!ToJson(txcs)
        
        \* Lastly, you may build expressions over arbitrary sets of states by
        \* leveraging the _TETrace operator.  For example, this is how to
        \* count the number of times a spec variable changed up to the current
        \* state in the trace.
        \* ,_txcsModCount |->
        \*     LET F[s \in DOMAIN _TETrace] ==
        \*         IF s = 1 THEN 0
        \*         ELSE IF _TETrace[s].txcs # _TETrace[s-1].txcs
        \*             THEN 1 + F[s-1] ELSE F[s-1]
        \*     IN F[_TEPosition - 1]
    ]

=============================================================================



Parsing and semantic processing can take forever if the trace below is long.
 In this case, it is advised to uncomment the module below to deserialize the
 trace from a generated binary file.

\*
\*---- MODULE MC_Chunk_TETrace ----
\*EXTENDS IOUtils, TLC, MC_Chunk
\*
\*trace == IODeserialize("MC_Chunk_TTrace_1790394456.bin", TRUE)
\*
\*=============================================================================
\*

---- MODULE MC_Chunk_TETrace ----
EXTENDS TLC, MC_Chunk

trace == 
    <<
    ([flight |-> <<>>,txcs |-> 1,tx |-> <<>>,err |-> "ok",nsent |-> 0,rx |-> [cs |-> 1, part |-> <<>>, mem |-> <<>>]]),
    ([flight |-> (2 :> [m |-> [ty |-> 8, msid |-> <<0, 0>>, ts |-> <<0, 0>>, len |-> 2], size |-> 0, full |-> FALSE, h |-> [ty |-> 8, msid |-> <<0, 0>>, ts |-> <<0, 0>>, len |-> 2, drop |-> FALSE, field |-> <<0, 0>>, delta |-> <<0, 0>>], got |-> 1]),txcs |-> 1,tx |-> (2 :> [ty |-> 8, msid |-> <<0, 0>>, ts |-> <<0, 0>>, len |-> 2, drop |-> FALSE, field |-> <<0, 0>>, delta |-> <<0, 0>>]),err |-> "ok",nsent |-> 1,rx |-> [cs |-> 1, part |-> (0 :> 1), mem |-> (2 :> [ty |-> 8, msid |-> <<0, 0>>, ts |-> <<0, 0>>, len |-> 2, field |-> <<0, 0>>, delta |-> <<0, 0>>])]]),
    ([flight |-> (2 :> [m |-> [ty |-> 8, msid |-> <<0, 0>>, ts |-> <<0, 0>>, len |-> 2], size |-> 0, full |-> FALSE, h |-> [ty |-> 8, msid |-> <<0, 0>>, ts |-> <<0, 0>>, len |-> 2, drop |-> FALSE, field |-> <<0, 0>>, delta |-> <<0, 0>>], got |-> 1]),txcs |-> 1,tx |-> (2 :> [ty |-> 8, msid |-> <<0, 0>>, ts |-> <<0, 0>>, len |-> 2, drop |-> FALSE, field |-> <<0, 0>>, delta |-> <<0, 0>>] @@ 3 :> [ty |-> 8, msid |-> <<0, 0>>, ts |-> <<0, 0>>, len |-> 0, drop |-> FALSE, field |-> <<0, 0>>, delta |-> <<0, 0>>]),err |-> "shared buffer holds more bytes than the message announced (length underflow)",nsent |-> 2,rx |-> [cs |-> 1, part |-> (0 :> 1), mem |-> (2 :> [ty |-> 8, msid |-> <<0, 0>>, ts |-> <<0, 0>>, len |-> 2, field |-> <<0, 0>>, delta |-> <<0, 0>>])]])
    >>
----


=============================================================================

---- CONFIG MC_Chunk_TTrace_1790394456 ----
CONSTANTS
    Base = 2
    Thr <- ThrMC2
    Csids = { 2 , 3 }
    Types = { 8 , 9 }
    Msids <- MsidsMC
    Lens = { 0 , 2 , 3 }
    Sizes = { 1 , 2 }
    MaxMsgs = 2
    CtlLen = 2
    DropRule = TRUE
    Interleave = TRUE
    Policy = "spec"
    Shared = TRUE

INVARIANT
    _inv

CHECK_DEADLOCK
    \* CHECK_DEADLOCK off because of PROPERTY or INVARIANT above.
    FALSE

INIT
    _init

NEXT
    _next

CONSTANT
    _TETrace <- _trace

ALIAS
    _expression
=============================================================================
\* Generated on Sat Sep 26 03:47:38 UTC 2026