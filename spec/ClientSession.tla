--------------------------- MODULE ClientSession ---------------------------
(***************************************************************************)
(* The client session as a message-level state machine (property C10);     *)
(* same construction as ServerSession.tla: CliStep(st, i) is a pure        *)
(* function to (state', expected observations), explored exhaustively by   *)
(* MC_Client and replayed over logs of the real ClientSession by           *)
(* Trace_Client.                                                           *)
(*                                                                         *)
(* State st = [state, txns, itxn, active]                                  *)
(*   state  Disconnected | Connected | PlayRequested | Playing |           *)
(*          PublishRequested | Publishing                                  *)
(*   txns   id -> [k |-> "connect" | "play" | "publish", key, ptype]       *)
(*   itxn   transaction ids ever issued;  active  <<>> | <<stream id>>     *)
(* Observations:                                                           *)
(*   [o |-> "Err"]          the call returned an error                     *)
(*   [o |-> "NoEvent"]      error or empty result, but no event            *)
(*   events   ConnAccepted, ConnRejected, PlaybackAccepted,                *)
(*            PublishAccepted, Media, Metadata, UnknownTxn                 *)
(*   outbound OutConnect(txn, app), OutCreateStream(txn), OutPlay(sid,key),*)
(*            OutPublish(sid, key, ptype), OutDeleteStream(sid),           *)
(*            OutMedia(kind, sid, ts, drop), OutMetadata(sid),             *)
(*            OutPing, OutPingResponse(ts), OutWinAck, OutSetCS            *)
(***************************************************************************)
EXTENDS Naturals, Sequences, TLC, FiniteSets

CNoF == <<>>
CPut(f, k, v) == (k :> v) @@ f
CDrop(f, k) == [x \in (DOMAIN f) \ {k} |-> f[x]]

CliInit == [state |-> "Disconnected", txns |-> CNoF, itxn |-> {}, active |-> <<>>]

CR(st, obs) == [st |-> st, obs |-> obs]
CErr == <<[o |-> "Err"]>>

CliCall(st, i) ==
    CASE i.m = "request_connection" ->
            IF st.state # "Disconnected" THEN CR(st, CErr)
            ELSE CR([st EXCEPT !.txns = CPut(st.txns, i.fresh, [k |-> "connect", key |-> i.app]),
                               !.itxn = st.itxn \cup {i.fresh}],
                    <<[o |-> "OutConnect", txn |-> i.fresh, app |-> i.app]>>)
      [] i.m \in {"request_playback", "request_publishing"} ->
            IF st.state # "Connected" THEN CR(st, CErr)
            ELSE CR([st EXCEPT !.txns = CPut(st.txns, i.fresh,
                                             IF i.m = "request_playback" THEN [k |-> "play", key |-> i.key]
                                             ELSE [k |-> "publish", key |-> i.key, ptype |-> i.ptype]),
                               !.itxn = st.itxn \cup {i.fresh}],
                    <<[o |-> "OutCreateStream", txn |-> i.fresh]>>)
      [] i.m = "stop_playback" ->
            IF st.state \in {"Playing", "PlayRequested"}
            THEN CR([st EXCEPT !.state = "Connected", !.active = <<>>],
                    IF st.active = <<>> THEN <<>> ELSE <<[o |-> "OutDeleteStream", sid |-> st.active[1]]>>)
            ELSE CR(st, <<>>)
      [] i.m = "stop_publishing" ->
            IF st.state \in {"Publishing", "PublishRequested"}
            THEN CR([st EXCEPT !.state = "Connected", !.active = <<>>],
                    IF st.active = <<>> THEN <<>> ELSE <<[o |-> "OutDeleteStream", sid |-> st.active[1]]>>)
            ELSE CR(st, <<>>)
      [] i.m \in {"publish_audio", "publish_video"} ->
            IF st.state = "Publishing" /\ st.active # <<>>
            THEN CR(st, <<[o |-> "OutMedia", kind |-> i.m, sid |-> st.active[1], ts |-> i.ts, drop |-> i.drop]>>)
            ELSE CR(st, CErr)
      [] i.m = "publish_metadata" ->
            IF st.state = "Publishing" /\ st.active # <<>>
            THEN CR(st, <<[o |-> "OutMetadata", sid |-> st.active[1]]>>)
            ELSE CR(st, CErr)
      [] i.m = "send_ping" -> CR(st, <<[o |-> "OutPing"]>>)

CliIn(st, i) ==
    CASE i.m \in {"result", "error"} ->
            IF ~i.txnint \/ i.txn \notin DOMAIN st.txns THEN CR(st, <<[o |-> "UnknownTxn"]>>)
            ELSE LET t == st.txns[i.txn]
                     st1 == [st EXCEPT !.txns = CDrop(st.txns, i.txn)]
                 IN
                 IF t.k = "connect" THEN
                     IF i.m = "result"
                     THEN CR([st1 EXCEPT !.state = "Connected"], <<[o |-> "ConnAccepted"], [o |-> "OutWinAck"], [o |-> "OutSetCS"]>>)
                     ELSE CR(st1, <<[o |-> "ConnRejected"]>>)
                 ELSE IF i.m = "error" \/ ~i.hassid THEN CR(st1, CErr)
                 ELSE IF t.k = "play" THEN
                     CR([st1 EXCEPT !.state = "PlayRequested", !.active = <<i.sid>>],
                        <<[o |-> "OutPlay", sid |-> i.sid, key |-> t.key]>>)
                 ELSE
                     CR([st1 EXCEPT !.state = "PublishRequested", !.active = <<i.sid>>],
                        <<[o |-> "OutPublish", sid |-> i.sid, key |-> t.key, ptype |-> t.ptype]>>)
      [] i.m = "onStatus" ->
            IF i.code = "malformed" THEN CR(st, CErr)
            ELSE IF i.code = "play_start" THEN
                 IF st.state = "PlayRequested" THEN CR([st EXCEPT !.state = "Playing"], <<[o |-> "PlaybackAccepted"]>>) ELSE CR(st, CErr)
            ELSE IF i.code = "publish_start" THEN
                 IF st.state = "PublishRequested" THEN CR([st EXCEPT !.state = "Publishing"], <<[o |-> "PublishAccepted"]>>) ELSE CR(st, CErr)
            ELSE CR(st, <<>>)
      [] i.m \in {"audio", "video"} ->
            IF st.state \in {"PlayRequested", "Playing"}
            THEN IF st.active = <<i.msid>> THEN CR(st, <<[o |-> "Media", kind |-> i.m, ts |-> i.ts]>>) ELSE CR(st, <<>>)
            ELSE CR(st, <<[o |-> "NoEvent"]>>)
      [] i.m = "onMetaData" ->
            IF i.shape = "ok" /\ st.active = <<i.msid>> THEN CR(st, <<[o |-> "Metadata"]>>) ELSE CR(st, <<>>)
      [] i.m = "pingreq" -> CR(st, <<[o |-> "OutPingResponse", ts |-> i.ts]>>)
      [] OTHER -> CR(st, <<>>)

CIsCall(i) == i.m \in {"request_connection", "request_playback", "request_publishing", "stop_playback", "stop_publishing",
                       "publish_audio", "publish_video", "publish_metadata", "send_ping"}
CliStep(st, i) == IF CIsCall(i) THEN CliCall(st, i) ELSE CliIn(st, i)
=============================================================================
