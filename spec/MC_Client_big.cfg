SPECIFICATION Spec
CONSTANTS
  TxnIds = {1,2,3,4,5}
  Sids = {1,2,3}
  MaxSteps = 60
INVARIANTS C10 Agree
VIEW View
CHECK_DEADLOCK FALSE
