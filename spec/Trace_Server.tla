---------------------------- MODULE Trace_Server ----------------------------
(***************************************************************************)
(* Trace validation of the real ServerSession against ServerSession.tla    *)
(* (C09) and AckWindow.tla (C17).                                          *)
(*                                                                         *)
(* Log: New (a fresh session; starts a run), then In (one handle_input     *)
(* call that delivered exactly one inbound message, described by Ev.i) and *)
(* Call (one application call) events, each with the returned results      *)
(* (events raised; outbound packets decoded back into messages by a peer   *)
(* decoder) and a probe of the session state.                              *)
(*                                                                         *)
(* Per event: expected == SrvStep(st, input).obs, where the fresh ids are  *)
(* read from the log (and must be unused).  The constrained events must    *)
(* equal the expected events exactly, in order; the expected outbound      *)
(* messages must occur, in order, among the returned ones (a response may  *)
(* contain more than the property demands, never less); a refused call     *)
(* returns nothing and leaves the probe unchanged.  Acknowledgements are   *)
(* taken out first and judged by AckWindow.                                *)
(* Verdict classes: SRV (C09), ACK (C17), PROBE (state drift, diagnostic). *)
(***************************************************************************)
EXTENDS ServerSession, AckWindow, Amf0, Names, Json, IOUtils

Rec == ndJsonDeserialize(IOEnv.TRACE)
NRec == Len(Rec)

VARIABLES l, st, win, pend, prevProbe, dead, fin
vars == <<l, st, win, pend, prevProbe, dead, fin>>
Ev == Rec[l]

Init == l = 1 /\ st = SrvInit /\ win = <<>> /\ pend = Zero /\ prevProbe = <<>> /\ dead = FALSE /\ fin = FALSE

Say(class, why) == PrintT("@@VERDICT|" \o class \o "|" \o why \o "|" \o ToString(l))

ZeroTxn == <<0, 0, 0, 0, 0, 0, 0, 0>>

Constrained == {"ConnectionRequested", "PublishStreamRequested", "PlayStreamRequested",
                "PublishStreamFinished", "PlayStreamFinished", "Media", "Metadata"}

Events(rs) == SelectSeq(rs, LAMBDA x : x.k = "event" /\ x.o \in Constrained)
IsAck(x)   == x.k = "out" /\ x.msg.k = "Ack"
Outs(rs)   == SelectSeq(rs, LAMBDA x : x.k = "out" /\ ~IsAck(x))
Acks(rs)   == SelectSeq(rs, LAMBDA x : IsAck(x))

StrIs(v, name) == v.t = "s" /\ BytesEq(v.s, Lit(name))
CmdIs(x, name) == x.msg.k = "Command" /\ BytesEq(x.msg.name, Lit(name))
StatusIs(x, code) ==
    /\ CmdIs(x, N_onStatus) /\ Len(x.msg.args) >= 1 /\ x.msg.args[1].t = "o"
    /\ \E k \in 1 .. Len(x.msg.args[1].p) :
          BytesEq(x.msg.args[1].p[k][1], Lit(N_code)) /\ StrIs(x.msg.args[1].p[k][2], code)

\* ---- SHAPE diagnostics (beyond the listed properties; reported as spec_drift, never a violation):
\* the exact sequence of messages a response consists of, and the session clock on control messages
KindOf(x) ==
    IF x.msg.k = "UserControl" THEN "UC:" \o x.msg.et
    ELSE IF x.msg.k = "Command" THEN
        (IF CmdIs(x, N_result) THEN "_result" ELSE IF CmdIs(x, N_error) THEN "_error" ELSE IF CmdIs(x, N_onBWDone) THEN "onBWDone"
         ELSE IF StatusIs(x, N_PublishStart) THEN "Publish.Start" ELSE IF StatusIs(x, N_PlayStart) THEN "Play.Start"
         ELSE IF StatusIs(x, N_PlayReset) THEN "Play.Reset" ELSE IF StatusIs(x, N_PlayComplete) THEN "Play.Complete" ELSE "Command")
    ELSE IF x.msg.k = "Data" THEN
        (IF Len(x.msg.vals) >= 1 /\ StrIs(x.msg.vals[1], N_SampleAccess) THEN "SampleAccess"
         ELSE IF Len(x.msg.vals) >= 1 /\ StrIs(x.msg.vals[1], N_onStatus) THEN "Data.onStatus"
         ELSE IF Len(x.msg.vals) >= 1 /\ StrIs(x.msg.vals[1], N_onMetaData) THEN "onMetaData" ELSE "Data")
    ELSE x.msg.k
Kinds(outs) == [k \in 1 .. Len(outs) |-> KindOf(outs[k])]

NewShape(cfg) == <<"SetChunkSize", "WinAck", "UC:StreamBegin", "SetPeerBw">> \o (IF cfg.bwdone THEN <<"onBWDone">> ELSE <<>>)
NewShapeOK(cfg, outs) ==
    /\ Kinds(outs) = NewShape(cfg)
    /\ outs[1].msg.v = <<cfg.cs \div 65536, cfg.cs % 65536>> /\ outs[2].msg.v = cfg.win
    /\ outs[3].msg.sid = << <<0, 0>> >> /\ outs[4].msg.v = cfg.bw /\ outs[4].msg.lt = "Dynamic"
    /\ \A k \in 1 .. Len(outs) : outs[k].msid = 0

AcceptShape(kind) ==
    CASE kind = "connect" -> <<"_result">>
      [] kind = "publish" -> <<"UC:StreamBegin", "Publish.Start">>
      [] kind = "play" -> <<"Play.Reset", "UC:StreamBegin", "Play.Start", "SampleAccess", "Data.onStatus">>

\* informational results (not mentioned by the listed properties): which of them an input produces
InfoKinds == {"AckRecv", "PingRespRecv", "ClientChunkSizeChanged", "UnhandleableAmf0Command", "ReleaseStreamRequested"}
InfoOf(rs) == SelectSeq(rs, LAMBDA x : (x.k = "event" /\ x.o \in InfoKinds) \/ x.k = "unhandled")
InfoOK(i, rs) ==
    LET g == InfoOf(rs) IN
    CASE i.m = "ack"         -> Len(g) = 1 /\ g[1].k = "event" /\ g[1].o = "AckRecv" /\ g[1].v = i.v
      [] i.m = "pingresp"    -> Len(g) = 1 /\ g[1].k = "event" /\ g[1].o = "PingRespRecv" /\ g[1].ts = i.ts
      [] i.m = "unknowncmd"  -> Len(g) = 1 /\ g[1].k = "event" /\ g[1].o = "UnhandleableAmf0Command"
      [] i.m = "unknowntype" -> Len(g) = 1 /\ g[1].k = "unhandled" /\ g[1].ty = i.ty
      [] OTHER -> Len(g) = 0

\* how the optional play arguments are surfaced (RTMP 7.2.2.1: start -2 live or recorded (default), -1 live only, >= 0 a position;
\* duration >= 0 or absent; reset flag), for the argument shapes the driver sends
PlayStartOf(a) == IF a = <<>> \/ a[1].k # "num" THEN [k |-> "LiveOrRecorded", v |-> 0]
                  ELSE IF a[1].v = -1 THEN [k |-> "LiveOnly", v |-> 0]
                  ELSE IF a[1].v >= 0 THEN [k |-> "At", v |-> a[1].v]
                  ELSE [k |-> "LiveOrRecorded", v |-> 0]
PlayDurOf(a)   == IF a # <<>> /\ a[1].k = "num" /\ a[1].v >= 0 THEN <<a[1].v>> ELSE <<>>
PlayResetOf(a) == a # <<>> /\ a[1].k = "bool" /\ a[1].v
PlayArgsOK(i, rs) ==
    LET S == SelectSeq(rs, LAMBDA x : x.k = "event" /\ x.o = "PlayStreamRequested") IN
    (Len(S) = 1 /\ "pargs" \in DOMAIN i) =>
        /\ S[1].start = PlayStartOf(i.pargs.start)
        /\ S[1].dur = PlayDurOf(i.pargs.dur)
        /\ S[1].reset = PlayResetOf(i.pargs.reset)

\* control messages carry the session uptime (the clock hook makes it known); media carries the caller's timestamp
ClockOK(outs, clk) == \A k \in 1 .. Len(outs) :
    outs[k].msg.k \in {"Audio", "Video", "SetChunkSize", "Undecodable"} \/ outs[k].ts = clk

\* does the returned outbound item x satisfy the expected observation e?
OutMatch(e, x) ==
    CASE e.o = "Error"         -> CmdIs(x, N_error) /\ x.msg.txn = e.txn /\ x.msid = e.msid
      [] e.o = "CreateResult"  -> CmdIs(x, N_result) /\ x.msg.txn = e.txn /\ x.arg0num = <<e.sid>>
      [] e.o = "ConnectResult" -> CmdIs(x, N_result) /\ x.msg.txn = e.txn /\ x.msid = 0
      [] e.o = "PublishStart"  -> StatusIs(x, N_PublishStart) /\ x.msid = e.sid
      [] e.o = "PlayStart"     -> StatusIs(x, N_PlayStart) /\ x.msid = e.sid
      [] e.o = "PlayComplete"  -> StatusIs(x, N_PlayComplete) /\ x.msid = e.sid
      [] e.o = "PingResponse"  -> x.msg.k = "UserControl" /\ x.msg.et = "PingResponse" /\ x.msg.ts = <<e.ts>>
      [] e.o = "OutMedia"      -> /\ x.msg.k = (IF e.kind = "send_audio" THEN "Audio" ELSE "Video")
                                  /\ BytesEq(x.msg.data, Ev.i.data) /\ x.msid = e.sid /\ x.ts = e.ts /\ x.drop = e.drop
      [] e.o = "OutMetadata"   -> x.msg.k = "Data" /\ Len(x.msg.vals) >= 2 /\ StrIs(x.msg.vals[1], N_onMetaData) /\ x.msid = e.sid
      [] e.o = "OutPing"       -> x.msg.k = "UserControl" /\ x.msg.et = "PingRequest"
      [] OTHER -> FALSE

\* the input an expected observation belongs to: the event's input, or - for an input call that delivered SEVERAL messages
\* (i.m = "batch") - the item the observation was derived from
Item(e) == IF "j" \in DOMAIN e THEN Ev.i.items[e.j] ELSE Ev.i

EvMatch(e, x) ==
    /\ e.o = x.o
    /\ CASE e.o = "ConnectionRequested"    -> x.req = e.req /\ x.app = e.app
         [] e.o = "PublishStreamRequested" -> x.req = e.req /\ x.app = e.app /\ x.key = e.key /\ x.mode = e.mode
         [] e.o = "PlayStreamRequested"    -> x.req = e.req /\ x.app = e.app /\ x.key = e.key /\ x.sid = e.sid
         [] e.o \in {"PublishStreamFinished", "PlayStreamFinished"} -> x.app = e.app /\ x.key = e.key
         [] e.o = "Media" -> x.kind = e.kind /\ x.app = e.app /\ x.key = e.key /\ x.ts = e.ts /\ BytesEq(x.data, Item(e).data)
         [] e.o = "Metadata" -> x.app = e.app /\ x.key = e.key /\ x.meta = Item(e).meta

IsEventObs(e) == e.o \in Constrained
ExpEvents(obs) == SelectSeq(obs, IsEventObs)
ExpOuts(obs)   == SelectSeq(obs, LAMBDA e : ~IsEventObs(e) /\ e.o # "Err")

RECURSIVE Embed(_, _, _, _)
\* do the expected outs exp[a..] occur in order among outs[b..]?
Embed(exp, a, outs, b) ==
    IF a > Len(exp) THEN TRUE
    ELSE IF b > Len(outs) THEN FALSE
    ELSE IF OutMatch(exp[a], outs[b]) THEN Embed(exp, a + 1, outs, b + 1)
    ELSE Embed(exp, a, outs, b + 1)

\* fresh ids are whatever the session handed out (checked for freshness below)
FreshOf(i, rs) ==
    IF i.m \in {"connect", "publish", "play"} THEN
        LET S == SelectSeq(rs, LAMBDA x : x.k = "event" /\ x.o \in {"ConnectionRequested", "PublishStreamRequested", "PlayStreamRequested"})
        IN IF Len(S) > 0 THEN S[1].req ELSE -1
    ELSE IF i.m = "createStream" THEN
        LET S == SelectSeq(rs, LAMBDA x : x.k = "out" /\ CmdIs(x, N_result) /\ x.arg0num # <<>>)
        IN IF Len(S) > 0 THEN S[1].arg0num[1] ELSE -1
    ELSE -1

ProbeOK(p, s) ==
    /\ p.state = s.conn
    /\ p.app = s.app
    /\ {r.id : r \in {p.reqs[k] : k \in 1 .. Len(p.reqs)}} = DOMAIN s.reqs
    /\ \A k \in 1 .. Len(p.reqs) : p.reqs[k].id \in DOMAIN s.reqs =>
            LET q == s.reqs[p.reqs[k].id] IN
            /\ p.reqs[k].k = q.k
            /\ (q.k = "connect" => p.reqs[k].app = q.app)
            /\ (q.k # "connect" => p.reqs[k].key = q.key /\ p.reqs[k].sid = q.sid)
    /\ {p.streams[k].id : k \in 1 .. Len(p.streams)} = DOMAIN s.streams
    /\ \A k \in 1 .. Len(p.streams) : p.streams[k].id \in DOMAIN s.streams =>
            /\ p.streams[k].st = s.streams[p.streams[k].id].st
            /\ p.streams[k].key = s.streams[p.streams[k].id].key

Advance == l' = l + 1 /\ UNCHANGED fin

DoNew ==
    /\ st' = SrvInit /\ win' = <<>> /\ pend' = Zero /\ prevProbe' = Ev.probe /\ dead' = FALSE
    /\ IF Ev.res # "ok" THEN Say("SRV", "session construction failed: " \o Ev.res) ELSE TRUE
    /\ IF Ev.res = "ok" /\ ~NewShapeOK(Ev.cfg, Outs(Ev.results)) THEN Say("SHAPE", "initial messages differ from SetChunkSize(cfg), WindowAck(cfg), StreamBegin(0), SetPeerBandwidth(cfg, dynamic)[, onBWDone]") ELSE TRUE
    /\ IF Ev.res = "ok" /\ ~ClockOK(Outs(Ev.results), Ev.clk) THEN Say("SHAPE", "a control message does not carry the session uptime") ELSE TRUE
    /\ Advance

\* judge one In / Call event
\* one input call that delivered several complete messages: the model takes them one after the other; what the call returns
\* is the concatenation of what each message calls for.  (The driver keeps messages that need fresh ids, announce a window or
\* are malformed out of batches; a batch holding an item the model refuses is not judged.)
RECURSIVE FoldSrv(_, _, _)
FoldSrv(s, items, k) ==
    IF k > Len(items) THEN [st |-> s, obs |-> <<>>, bad |-> FALSE]
    ELSE LET it   == [zero |-> ZeroTxn, fresh |-> -1] @@ items[k]
             r    == SrvStep(s, it)
             rest == FoldSrv(r.st, items, k + 1)
         IN  [st |-> rest.st,
              obs |-> [n \in 1 .. Len(r.obs) |-> [j |-> k] @@ r.obs[n]] \o rest.obs,
              bad |-> rest.bad \/ r.obs = ErrObs]

DoStep ==
    LET i0  == Ev.i
        rs  == Ev.results
        fr  == FreshOf(i0, rs)
        i   == [zero |-> ZeroTxn, fresh |-> fr] @@ i0
        isBatch == i0.m = "batch"
        fb  == FoldSrv(st, i0.items, 1)
        unjudged == isBatch /\ fb.bad
        r   == IF isBatch THEN [st |-> fb.st, obs |-> fb.obs] ELSE SrvStep(st, i)
        exE == ExpEvents(r.obs)
        exO == ExpOuts(r.obs)
        gotE == Events(rs)
        gotO == Outs(rs)
        rs2 == SelectSeq(rs, LAMBDA x : x.k = "out")
        wantErr == r.obs = ErrObs
        malformedMeta == i0.m = "setDataFrame" /\ i0.shape # "ok"
        \* acknowledgement accounting (In events only)
        a   == IF Ev.ev = "In" THEN AckStep(win, pend, FromNat(Ev.n)) ELSE [ack |-> <<>>, pend |-> pend, over |-> FALSE]
        gotA == Acks(rs)
        ackBad == IF Ev.ev # "In" THEN Len(gotA) # 0
                  ELSE IF a.ack = <<>> THEN Len(gotA) # 0
                  ELSE ~(Len(gotA) = 1 /\ (a.over \/ gotA[1].msg.v = a.ack[1]))
        \* malformed argument lists about which the statement is silent: whether the call reports an error or ignores the
        \* message is not constrained; only "no event may be raised for it" is
        lenient == i0.m \in {"closeStream", "deleteStream"} /\ i0.arg # "num"
        verdictSrv ==
            IF unjudged THEN ""
            ELSE IF malformedMeta THEN ""
            ELSE IF lenient THEN (IF Len(gotE) # 0 THEN "event raised for a malformed message (" \o i0.m \o ")" ELSE "")
            ELSE IF Ev.res \notin {"ok"} /\ ~wantErr THEN "call failed where the protocol prescribes a result: " \o Ev.res
            ELSE IF wantErr /\ Ev.res = "ok" THEN "call succeeded where it must be refused (" \o i0.m \o ")"
            ELSE IF wantErr /\ (Len(gotO) # 0 \/ Len(gotE) # 0) THEN "refused call returned results"
            ELSE IF wantErr /\ i0.m \in {"accept", "reject"} /\ i0.id \notin DOMAIN st.reqs /\ Ev.probe # prevProbe
                 THEN "refused accept/reject had side effects"
            ELSE IF wantErr THEN ""
            ELSE IF fr # -1 /\ i0.m \in {"connect", "publish", "play"} /\ fr \in st.ireq THEN "request id was issued before"
            ELSE IF fr # -1 /\ i0.m = "createStream" /\ fr \in st.istream THEN "stream id was issued before"
            ELSE IF malformedMeta THEN ""
            ELSE IF Len(gotE) # Len(exE) THEN "raised events differ from what the protocol state machine prescribes (" \o i0.m \o ")"
            ELSE IF \E k \in 1 .. Len(exE) : ~EvMatch(exE[k], gotE[k]) THEN "raised event has wrong content (" \o i0.m \o ")"
            ELSE IF ~Embed(exO, 1, gotO, 1) THEN "required response missing or wrong (" \o i0.m \o ")"
            ELSE ""     \* (outbound messages the property does not mention are not constrained)
    IN
    /\ IF dead THEN TRUE
       ELSE /\ IF verdictSrv # "" THEN Say("SRV", verdictSrv) ELSE TRUE
            /\ IF \E k \in 1 .. Len(rs) : rs[k].k = "out" /\ rs[k].msg.k = "Undecodable"
               THEN Say("WIRE", "a returned packet is not decodable by a conformant peer") ELSE TRUE
            /\ IF \E k \in 1 .. Len(rs) : rs[k].k = "out" /\ rs[k].drop /\ rs[k].msg.k \notin {"Audio", "Video", "Undecodable"}
               THEN Say("WIRE", "droppable mark on a packet that is not media") ELSE TRUE
            /\ IF ackBad THEN Say("ACK", IF a.ack = <<>> THEN "acknowledgement emitted although the window was not reached"
                                         ELSE "window reached: exactly one acknowledgement carrying the byte count must be emitted by this call")
               ELSE TRUE
            /\ IF verdictSrv = "" /\ ~unjudged /\ ~ProbeOK(Ev.probe, r.st) THEN Say("PROBE", "session state differs from the model after " \o i0.m) ELSE TRUE
            /\ IF verdictSrv = "" /\ ~ClockOK(rs2, Ev.clk) THEN Say("SHAPE", "a control message does not carry the session uptime (" \o i0.m \o ")") ELSE TRUE
            /\ IF verdictSrv = "" /\ ~isBatch /\ Ev.res = "ok" /\ ~InfoOK(i0, rs) THEN Say("SHAPE", "informational results differ from the usual ones (" \o i0.m \o ")") ELSE TRUE
            /\ IF verdictSrv = "" /\ i0.m = "play" /\ ~PlayArgsOK(i0, rs) THEN Say("SHAPE", "optional play arguments are surfaced differently from the usual reading") ELSE TRUE
            /\ IF verdictSrv = "" /\ i0.m = "accept" /\ ~wantErr /\ Kinds(gotO) # AcceptShape(st.reqs[i0.id].k)
               THEN Say("SHAPE", "acceptance of a " \o st.reqs[i0.id].k \o " request does not consist of the usual messages") ELSE TRUE
    /\ st' = r.st
    /\ prevProbe' = Ev.probe
    \* the window applies from the call after the one that announced it; what that call itself
    \* contributed is taken from the probe (any value 0 .. n would satisfy the statement)
    /\ win' = IF Ev.ev = "In" /\ i0.m = "winack" /\ Ev.res = "ok" THEN <<i0.v>> ELSE win
    /\ pend' = IF Ev.ev = "In" /\ i0.m = "winack" /\ win = <<>> THEN FromNat(Ev.probe.pending)
               ELSE IF ackBad THEN FromNat(Ev.probe.pending) ELSE a.pend
    \* after a verdict the model and the session may have diverged: stop judging this run
    /\ dead' = (dead \/ verdictSrv # "" \/ unjudged)
    /\ Advance

Step == /\ l <= NRec
        /\ IF Ev.ev = "New" THEN DoNew ELSE DoStep

Finish == /\ l = NRec + 1 /\ ~fin /\ fin' = TRUE
          /\ PrintT("@@ACCEPT|" \o ToString(NRec) \o "|0")
          /\ UNCHANGED <<l, st, win, pend, prevProbe, dead>>
Next == Step \/ Finish
Spec == Init /\ [][Next]_vars
=============================================================================
