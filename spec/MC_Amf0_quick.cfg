SPECIFICATION Spec
CONSTANTS
  Deep = FALSE
INVARIANTS RoundTrip PrefixOK BadMarker AllRepresentable
CHECK_DEADLOCK FALSE
