SPECIFICATION GenSpec
INVARIANTS Sound Aliases Emit
CHECK_DEADLOCK FALSE
