------------------------------- MODULE Amf0 -------------------------------
(***************************************************************************)
(* AMF0 (Action Message Format 0) - the value universe the library         *)
(* supports, a reference decoder and a reference encoder, written from     *)
(* the AMF0 specification:                                                 *)
(*   0x00 number   8 bytes IEEE-754 big endian (kept as 8 opaque bytes so  *)
(*                 NaN payloads and -0 survive)                            *)
(*   0x01 boolean  1 byte, zero = false, anything else = true              *)
(*   0x02 string   u16 big-endian byte length + UTF-8 bytes                *)
(*   0x03 object   (u16 name length + name + value)*  00 00 09             *)
(*   0x05 null     0x06 undefined                                          *)
(*   0x08 ECMA array  u32 count (advisory) + object body  (decoded as      *)
(*                 an object)                                              *)
(*   0x0A strict array  u32 big-endian count + that many values            *)
(* every other marker (movieclip 4, reference 7, date 11, long string 12,  *)
(* unsupported 13, recordset 14, xml 15, typed object 16, avm+ 17, ...)    *)
(* is "unsupported" here and must be reported as an error.                 *)
(*                                                                         *)
(* Values are trees:                                                       *)
(*   [t |-> "n", b |-> ref]   [t |-> "b", v |-> BOOLEAN]                   *)
(*   [t |-> "s", s |-> ref]   [t |-> "z"]  [t |-> "u"]                     *)
(*   [t |-> "o", p |-> << <<name ref, value>>, ... >>]                     *)
(*   [t |-> "a", e |-> << value, ... >>]                                   *)
(* where a ref = [src, at, n] denotes n bytes of byte string src from      *)
(* cursor at - so no byte is ever copied into a TLC value.                 *)
(***************************************************************************)
EXTENDS Bytes, TLC

Ref(src, at, n) == [src |-> src, at |-> at, n |-> n]
WholeRef(src)   == Ref(src, Start, BLen(src))
RefEq(a, b)     == a.n = b.n /\ SliceEq(a.src, a.at, b.src, b.at, a.n)

Supported == {0, 1, 2, 3, 5, 6, 8, 10}

Bad(why, c) == [ok |-> FALSE, why |-> why, c |-> c]
Good(v, c)  == [ok |-> TRUE, v |-> v, c |-> c]

U16At(B, c) == LET b == Take(B, c, 2) IN b[1] * 256 + b[2]

RECURSIVE DecValue(_, _), DecProps(_, _, _), DecElems(_, _, _, _)

\* decode one value whose marker is at cursor c
DecValue(B, c) ==
    IF Avail(B, c) < 1 THEN Bad("truncated", c) ELSE
    LET m  == ByteAt(B, c)
        c1 == Adv(B, c, 1)
    IN
    CASE m = 0 -> IF Avail(B, c1) < 8 THEN Bad("truncated", c)
                  ELSE Good([t |-> "n", b |-> Ref(B, c1, 8)], Adv(B, c1, 8))
      [] m = 1 -> IF Avail(B, c1) < 1 THEN Bad("truncated", c)
                  ELSE Good([t |-> "b", v |-> ByteAt(B, c1) # 0], Adv(B, c1, 1))
      [] m = 2 -> IF Avail(B, c1) < 2 THEN Bad("truncated", c)
                  ELSE LET n == U16At(B, c1)  c2 == Adv(B, c1, 2) IN
                       IF Avail(B, c2) < n THEN Bad("truncated", c)
                       ELSE Good([t |-> "s", s |-> Ref(B, c2, n)], Adv(B, c2, n))
      [] m = 3 -> DecProps(B, c1, <<>>)
      [] m = 5 -> Good([t |-> "z"], c1)
      [] m = 6 -> Good([t |-> "u"], c1)
      [] m = 8 -> IF Avail(B, c1) < 4 THEN Bad("truncated", c)
                  ELSE DecProps(B, Adv(B, c1, 4), <<>>)
      [] m = 10 -> IF Avail(B, c1) < 4 THEN Bad("truncated", c)
                   ELSE LET b == Take(B, c1, 4) IN
                        DecElems(B, Adv(B, c1, 4), <<b[1] * 256 + b[2], b[3] * 256 + b[4]>>, <<>>)
      [] OTHER -> Bad("unsupported marker", c)

\* object body: properties until the terminator 00 00 09
DecProps(B, c, acc) ==
    IF Avail(B, c) < 2 THEN Bad("truncated", c) ELSE
    LET n  == U16At(B, c)
        c1 == Adv(B, c, 2)
    IN
    IF n = 0 THEN
        IF Avail(B, c1) < 1 THEN Bad("truncated", c)
        ELSE IF ByteAt(B, c1) = 9 THEN Good([t |-> "o", p |-> acc], Adv(B, c1, 1))
        ELSE Bad("empty property name", c)
    ELSE IF Avail(B, c1) < n THEN Bad("truncated", c)
    ELSE LET r == DecValue(B, Adv(B, c1, n)) IN
         IF ~r.ok THEN r
         ELSE DecProps(B, r.c, Append(acc, <<Ref(B, c1, n), r.v>>))

\* strict array body: k (a word <<hi, lo>>) further values
DecElems(B, c, k, acc) ==
    IF k = <<0, 0>> THEN Good([t |-> "a", e |-> acc], c)
    ELSE LET r == DecValue(B, c) IN
         IF ~r.ok THEN r
         ELSE DecElems(B, r.c, IF k[2] > 0 THEN <<k[1], k[2] - 1>> ELSE <<k[1] - 1, 65535>>, Append(acc, r.v))

RECURSIVE DecSeq(_, _, _)
\* a sequence of values up to the end of B
DecSeq(B, c, acc) ==
    IF Avail(B, c) = 0 THEN [ok |-> TRUE, vs |-> acc, c |-> c]
    ELSE LET r == DecValue(B, c) IN
         IF ~r.ok THEN [ok |-> FALSE, why |-> r.why, vs |-> acc, c |-> r.c]
         ELSE DecSeq(B, r.c, Append(acc, r.v))

DecAll(B) == DecSeq(B, Start, <<>>)

---------------------------------------------------------------------------
(* Equality of value trees: numbers bit for bit, strings and names byte    *)
(* for byte, objects as unordered name -> value maps.                      *)
RECURSIVE ValEq(_, _)
ValEq(a, b) ==
    /\ a.t = b.t
    /\ CASE a.t = "n" -> RefEq(a.b, b.b)
         [] a.t = "b" -> a.v = b.v
         [] a.t = "s" -> RefEq(a.s, b.s)
         [] a.t = "o" -> /\ Len(a.p) = Len(b.p)
                         /\ \A i \in 1 .. Len(a.p) : \E j \in 1 .. Len(b.p) :
                                RefEq(a.p[i][1], b.p[j][1]) /\ ValEq(a.p[i][2], b.p[j][2])
                         /\ \A i, j \in 1 .. Len(a.p) : RefEq(a.p[i][1], a.p[j][1]) => i = j
                         /\ \A i, j \in 1 .. Len(b.p) : RefEq(b.p[i][1], b.p[j][1]) => i = j
         [] a.t = "a" -> /\ Len(a.e) = Len(b.e)
                         /\ \A i \in 1 .. Len(a.e) : ValEq(a.e[i], b.e[i])
         [] OTHER -> TRUE

SeqEq(as, bs) == Len(as) = Len(bs) /\ \A i \in 1 .. Len(as) : ValEq(as[i], bs[i])

(* "w is what a decoder that stops at the end of the input may return for a *)
(* truncated encoding of v": a prefix; the last element may itself be an    *)
(* array cut short (recursively).  Objects and strings are never cut.       *)
RECURSIVE TruncVal(_, _)
TruncVal(a, b) ==
    \/ ValEq(a, b)
    \/ /\ a.t = "a" /\ b.t = "a" /\ Len(a.e) <= Len(b.e)
       /\ \A i \in 1 .. Len(a.e) - 1 : ValEq(a.e[i], b.e[i])
       /\ Len(a.e) > 0 => TruncVal(a.e[Len(a.e)], b.e[Len(a.e)])

TruncRel(ws, vs) ==
    /\ Len(ws) <= Len(vs)
    /\ \A i \in 1 .. Len(ws) - 1 : ValEq(ws[i], vs[i])
    /\ Len(ws) > 0 => TruncVal(ws[Len(ws)], vs[Len(ws)])

---------------------------------------------------------------------------
(* What the wire format can express: string and name lengths fit u16,      *)
(* names are non-empty (an empty name IS the object terminator).           *)
RECURSIVE Representable(_)
Representable(v) ==
    CASE v.t = "s" -> v.s.n <= 65535
      [] v.t = "o" -> \A i \in 1 .. Len(v.p) :
                          v.p[i][1].n >= 1 /\ v.p[i][1].n <= 65535 /\ Representable(v.p[i][2])
      [] v.t = "a" -> \A i \in 1 .. Len(v.e) : Representable(v.e[i])
      [] OTHER -> TRUE

---------------------------------------------------------------------------
(* Logged values (JSON) -> trees.  Logged form:                            *)
(*   {"t":"n","b":[8 bytes]} {"t":"b","v":bool} {"t":"s","s":segs}         *)
(*   {"t":"o","p":[[name segs, value], ...]} {"t":"a","e":[...]} z u       *)
RECURSIVE Norm(_)
Norm(v) ==
    CASE v.t = "n" -> [t |-> "n", b |-> WholeRef(<<[l |-> v.b]>>)]
      [] v.t = "b" -> [t |-> "b", v |-> v.v]
      [] v.t = "s" -> [t |-> "s", s |-> WholeRef(v.s)]
      [] v.t = "o" -> [t |-> "o", p |-> [i \in 1 .. Len(v.p) |-> <<WholeRef(v.p[i][1]), Norm(v.p[i][2])>>]]
      [] v.t = "a" -> [t |-> "a", e |-> [i \in 1 .. Len(v.e) |-> Norm(v.e[i])]]
      [] OTHER -> [t |-> v.t]

NormSeq(vs) == [i \in 1 .. Len(vs) |-> Norm(vs[i])]

---------------------------------------------------------------------------
(* Reference encoder (flat byte tuples; used by the small-universe check   *)
(* MC_Amf0 only).  Trees here carry their bytes in literal one-segment     *)
(* refs.                                                                   *)
RefBytes(r) == Take(r.src, r.at, r.n)
U16(n) == <<n \div 256, n % 256>>
U32(n) == <<0, 0, n \div 256, n % 256>>         \* small n only

RECURSIVE Enc(_), EncProps(_, _), EncElems(_, _)
Enc(v) ==
    CASE v.t = "n" -> <<0>> \o RefBytes(v.b)
      [] v.t = "b" -> <<1, IF v.v THEN 1 ELSE 0>>
      [] v.t = "s" -> <<2>> \o U16(v.s.n) \o RefBytes(v.s)
      [] v.t = "o" -> <<3>> \o EncProps(v.p, 1) \o <<0, 0, 9>>
      [] v.t = "z" -> <<5>>
      [] v.t = "u" -> <<6>>
      [] v.t = "a" -> <<10>> \o U32(Len(v.e)) \o EncElems(v.e, 1)
EncProps(p, i) == IF i > Len(p) THEN <<>>
                  ELSE U16(p[i][1].n) \o RefBytes(p[i][1]) \o Enc(p[i][2]) \o EncProps(p, i + 1)
EncElems(e, i) == IF i > Len(e) THEN <<>> ELSE Enc(e[i]) \o EncElems(e, i + 1)

RECURSIVE EncSeq(_, _)
EncSeq(vs, i) == IF i > Len(vs) THEN <<>> ELSE Enc(vs[i]) \o EncSeq(vs, i + 1)

Lit(bytes) == IF bytes = <<>> THEN <<>> ELSE <<[l |-> bytes]>>
=============================================================================
