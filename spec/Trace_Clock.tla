----------------------------- MODULE Trace_Clock -----------------------------
(***************************************************************************)
(* Trace validation of RtmpTimestamp (C20) with Base = 65536: every logged *)
(* sample (a, d, a+d, a-d, the orderings of a versus d through every       *)
(* operator, against timestamps and against plain integers on either side) *)
(* is recomputed with the limb arithmetic of U32 and the definition Later. *)
(***************************************************************************)
EXTENDS U32, Integers, Sequences, TLC, Json, IOUtils

Rec == ndJsonDeserialize(IOEnv.TRACE)
NRec == Len(Rec)
VARIABLES l, fin
vars == <<l, fin>>
Ev == Rec[l]
Init == l = 1 /\ fin = FALSE
Say(class, why) == PrintT("@@VERDICT|" \o class \o "|" \o why \o "|" \o ToString(l))

\* what the ordering of x versus y must be: 0 equal, 1 x later, -1 x earlier, 2 antipodal (either, but total)
Want(x, y) == IF x = y THEN 0 ELSE IF Sub(x, y) = Half THEN 2 ELSE IF Later(x, y) THEN 1 ELSE -1

OpsOK(o, c) == /\ o.lt = (c = -1) /\ o.le = (c <= 0) /\ o.gt = (c = 1) /\ o.ge = (c >= 0)

Check ==
    LET a == Ev.a  d == Ev.d  wnt == Want(a, d) IN
    IF Ev.add # Add(a, d) \/ Ev.addu # Add(a, d) THEN Say("CLK", "addition is not exact modulo 2^32")
    ELSE IF Ev.sub # Sub(a, d) \/ Ev.subu # Sub(a, d) THEN Say("CLK", "subtraction is not exact modulo 2^32")
    ELSE IF Ev.inv1 # a \/ Ev.inv2 # a THEN Say("CLK", "addition and subtraction are not inverse")
    ELSE IF Ev.cmp \notin {-1, 0, 1} THEN Say("CLK", "ordering is not total")
    ELSE IF (Ev.cmp = 0) # (a = d) \/ Ev.eq # (a = d) \/ Ev.equ # (a = d) \/ Ev.ueq # (a = d) THEN Say("CLK", "ordering or equality disagrees with equality of values")
    ELSE IF "fresh" \in DOMAIN Ev /\ ~Ev.fresh THEN Say("CLK", "a timestamp produced by arithmetic or set() does not equal a fresh timestamp of the same value (ordering must agree with equality)")
    ELSE IF Ev.rcmp # -Ev.cmp THEN Say("CLK", "ordering is not antisymmetric")
    ELSE IF wnt \in {-1, 1} /\ Ev.cmp # wnt THEN Say("CLK", "a time 1..2^31-1 ms ahead (mod 2^32) is not ordered as later")
    ELSE IF ~OpsOK(Ev.ops, Ev.cmp) THEN Say("CLK", "comparison operators disagree with cmp")
    ELSE IF ~OpsOK(Ev.opsu, Ev.cmp) \/ ~OpsOK(Ev.uops, Ev.cmp) THEN Say("CLK", "comparison against a plain integer disagrees with comparison between timestamps")
    ELSE IF Ev.sumcmp # Want(Add(a, d), a) /\ Want(Add(a, d), a) # 2 THEN Say("CLK", "order of a versus a+d is wrong")
    ELSE TRUE

Step == l <= NRec /\ (IF Ev.ev = "Clk" THEN Check ELSE TRUE) /\ l' = l + 1 /\ UNCHANGED fin
Finish == l = NRec + 1 /\ ~fin /\ fin' = TRUE /\ UNCHANGED l /\ PrintT("@@ACCEPT|" \o ToString(NRec) \o "|0")
Next == Step \/ Finish
Spec == Init /\ [][Next]_vars
=============================================================================
