------------------------- MODULE MC_HandshakeLegacy -------------------------
(***************************************************************************)
(* The library's handshake stage machine (side "L", Handshake!HsStep)      *)
(* against a peer written from the original RTMP 1.0 handshake description *)
(* (side "O"), which is NOT the same machine: it tracks CONTENT (its       *)
(* packet 2 is an echo of the packet 1 it received), it may be the active  *)
(* side or a passive one that waits for the version byte (or for the whole *)
(* packet 1) before it sends anything, it may batch packets 0+1+2, and it  *)
(* sends application data only after it has seen the library's packet 2    *)
(* (strict) or right after its own packet 2 (eager).                       *)
(*                                                                         *)
(* Bytes carry identity: <<owner, packet, index>>, so "returned unmodified,*)
(* in order, exactly once" and "packet 2 echoes packet 1" are checked on   *)
(* content, not on counts (MC_Handshake counts).  C05, last sentence.      *)
(***************************************************************************)
EXTENDS Handshake, Integers, TLC

CONSTANTS T            \* trailing application bytes per side

\* the scenario, chosen in the initial state and never changed:
\*   c.active   the library side starts (client role) / waits for input (server role)
\*   c.wait     0: the peer starts; 1: it waits for the version byte; 1 + P: it waits for packets 0 + 1
\*   c.batch    the peer sends packets 0, 1 and 2 in one go (after it has received packets 0 + 1)
\*   c.strict   the peer sends application data only after it has received the library's packet 2
Scenarios == {x \in [active : BOOLEAN, wait : {0, 1, 1 + P}, batch : BOOLEAN, strict : BOOLEAN] :
                 /\ (~x.active => x.wait = 0)          \* somebody has to start
                 /\ (x.batch => x.wait = 1 + P)}

VARIABLES c,       \* the scenario
          hs,      \* library stage machine (counts, as in Handshake)
          lbuf,    \* CONTENT of what the library has buffered and not yet consumed
          lrecv,   \* everything delivered to the library so far (content)
          lout,    \* everything the library emitted so far (content)
          lapp,    \* what the library handed to its application (content)
          o,       \* peer: [sent01, sent2, done, sentT]
          orecv,   \* everything delivered to the peer (content)
          oapp,    \* what the peer's application got (content after 1 + 2P)
          fl,      \* fl.L / fl.O : content in flight towards L / O
          sentTL, bad

vars == <<c, hs, lbuf, lrecv, lout, lapp, o, orecv, oapp, fl, sentTL, bad>>

Pkt(owner, name, n) == [i \in 1 .. n |-> <<owner, name, i>>]
Ver(owner) == << <<owner, "v", 1>> >>
Echo(s) == s      \* packet 2 of a digest-less peer is the packet 1 it received, byte for byte

Init == /\ c \in Scenarios
        /\ hs = HsInit /\ lbuf = <<>> /\ lrecv = <<>> /\ lout = <<>> /\ lapp = <<>>
        /\ o = [sent01 |-> FALSE, sent2 |-> FALSE, done |-> FALSE, sentT |-> FALSE]
        /\ orecv = <<>> /\ oapp = <<>> /\ fl = [L |-> <<>>, O |-> <<>>] /\ sentTL = FALSE /\ bad = ""

\* what the library emits for `n` bytes of output given how much it had emitted before: version, packet 1, packet 2.
\* Packet 2 of the library answers a digest-less packet 1 with its echo (C11, last clause): the content of the peer's
\* packet 1 is what the library received at positions 2 .. 1 + P.
LibOut(before, n, received) ==
    LET all == Ver("L") \o Pkt("L", "p1", P) \o (IF Len(received) >= 1 + P THEN Echo(SubSeq(received, 2, 1 + P)) ELSE <<>>)
    IN  SubSeq(all, before + 1, before + n)

LibGenerate ==
    /\ c.active /\ hs.stage = "NeedToSend"
    /\ LET r == HsGen(hs) IN
       /\ hs' = r.st
       /\ lout' = lout \o LibOut(Len(lout), r.out, lrecv)
       /\ fl' = [fl EXCEPT !.O = @ \o LibOut(Len(lout), r.out, lrecv)]
    /\ UNCHANGED <<c, lbuf, lrecv, lapp, o, orecv, oapp, sentTL, bad>>

LibDeliver(k) ==
    /\ k \in 1 .. Len(fl.L)
    /\ LET piece == SubSeq(fl.L, 1, k)
           rest  == SubSeq(fl.L, k + 1, Len(fl.L))
           recv2 == lrecv \o piece
       IN
       /\ lrecv' = recv2
       /\ IF hs.stage = "Complete"
          THEN /\ lapp' = lapp \o piece /\ fl' = [fl EXCEPT !.L = rest]
               /\ UNCHANGED <<hs, lbuf, lout, bad>>
          ELSE LET r == HsStep(hs, k)
                   emitted == LibOut(Len(lout), r.out, recv2)
                   whole == lbuf \o piece
               IN
               /\ hs' = r.st
               /\ lout' = lout \o emitted
               /\ fl' = [L |-> rest, O |-> fl.O \o emitted]
               \* content handed back on completion: the last r.left bytes of what is buffered
               /\ lapp' = lapp \o SubSeq(whole, Len(whole) - r.left + 1, Len(whole))
               /\ lbuf' = IF r.done THEN <<>> ELSE SubSeq(whole, Len(whole) - r.st.buf + 1, Len(whole))
               /\ bad' = IF r.err THEN "error reported"
                         ELSE IF r.done /\ Len(recv2) < 1 + 2 * P THEN "completion before the peer's 1 + 2P bytes arrived"
                         ELSE bad
    /\ UNCHANGED <<c, o, orecv, oapp, sentTL>>

\* the library's application sends its data once the library's own handshake bytes are out
LibTrailing ==
    /\ ~sentTL /\ hs.emitted = 1 + 2 * P
    /\ sentTL' = TRUE
    /\ fl' = [fl EXCEPT !.O = @ \o Pkt("L", "app", T)]
    /\ UNCHANGED <<c, hs, lbuf, lrecv, lout, lapp, o, orecv, oapp, bad>>

\* ---- the peer, from the protocol description
PeerCanSend01 == ~o.sent01 /\ Len(orecv) >= c.wait
PeerCanSend2  == o.sent01 /\ ~o.sent2 /\ Len(orecv) >= 1 + P

PeerSend01 ==
    /\ PeerCanSend01
    /\ (c.batch => Len(orecv) >= 1 + P)
    /\ LET p01 == Ver("O") \o Pkt("O", "p1", P)
           p2  == IF c.batch THEN Echo(SubSeq(orecv, 2, 1 + P)) ELSE <<>>
       IN fl' = [fl EXCEPT !.L = @ \o p01 \o p2]
    /\ o' = [o EXCEPT !.sent01 = TRUE, !.sent2 = c.batch]
    /\ UNCHANGED <<c, hs, lbuf, lrecv, lout, lapp, orecv, oapp, sentTL, bad>>

PeerSend2 ==
    /\ PeerCanSend2
    /\ fl' = [fl EXCEPT !.L = @ \o Echo(SubSeq(orecv, 2, 1 + P))]
    /\ o' = [o EXCEPT !.sent2 = TRUE]
    /\ UNCHANGED <<c, hs, lbuf, lrecv, lout, lapp, orecv, oapp, sentTL, bad>>

PeerDeliver(k) ==
    /\ k \in 1 .. Len(fl.O)
    /\ LET piece == SubSeq(fl.O, 1, k)
           recv2 == orecv \o piece
       IN /\ orecv' = recv2
          /\ fl' = [fl EXCEPT !.O = SubSeq(fl.O, k + 1, Len(fl.O))]
          /\ o' = [o EXCEPT !.done = Len(recv2) >= 1 + 2 * P]
          /\ oapp' = IF Len(recv2) > 1 + 2 * P THEN SubSeq(recv2, 2 + 2 * P, Len(recv2)) ELSE <<>>
    /\ UNCHANGED <<c, hs, lbuf, lrecv, lout, lapp, sentTL, bad>>

PeerTrailing ==
    /\ ~o.sentT /\ o.sent2 /\ (c.strict => o.done)
    /\ o' = [o EXCEPT !.sentT = TRUE]
    /\ fl' = [fl EXCEPT !.L = @ \o Pkt("O", "app", T)]
    /\ UNCHANGED <<c, hs, lbuf, lrecv, lout, lapp, orecv, oapp, sentTL, bad>>

Next == \/ LibGenerate \/ LibTrailing \/ PeerSend01 \/ PeerSend2 \/ PeerTrailing
        \/ \E k \in 1 .. (2 + 2 * P + T) : LibDeliver(k) \/ PeerDeliver(k)

Spec == Init /\ [][Next]_vars /\ WF_vars(Next)

---------------------------------------------------------------------------
NoError == bad = ""
\* the library emits version, its packet 1, and the ECHO of the peer's packet 1 - nothing else, in this order
LibEmitsExactly ==
    /\ Len(lout) <= 1 + 2 * P
    /\ \A i \in 1 .. Len(lout) :
          lout[i] = IF i = 1 THEN <<"L", "v", 1>>
                    ELSE IF i <= 1 + P THEN <<"L", "p1", i - 1>>
                    ELSE <<"O", "p1", i - 1 - P>>
NoEarlyCompletion == hs.stage = "Complete" => Len(lrecv) >= 1 + 2 * P
\* what reached the library's application is exactly the peer's application bytes so far: unmodified, in order, once
LibAppExact == /\ \A i \in 1 .. Len(lapp) : lapp[i] = <<"O", "app", i>>
               /\ (hs.stage = "Complete" => lapp = SubSeq(lrecv, 2 + 2 * P, Len(lrecv)))
\* the peer sees a well-formed answer: version, packet 1, echo of ITS packet 1, then the library's application bytes
PeerSeesEcho == \A i \in 1 .. Len(orecv) :
                   orecv[i] = IF i = 1 THEN <<"L", "v", 1>>
                              ELSE IF i <= 1 + P THEN <<"L", "p1", i - 1>>
                              ELSE IF i <= 1 + 2 * P THEN <<"O", "p1", i - 1 - P>>
                              ELSE <<"L", "app", i - 1 - 2 * P>>

\* negative control: two passive sides never get anywhere
DeadScenarios == {[active |-> FALSE, wait |-> 1, batch |-> FALSE, strict |-> TRUE]}

AllDone == /\ hs.stage = "Complete" /\ o.done /\ Len(lapp) = T /\ Len(oapp) = T
Live == <>[]AllDone
=============================================================================
