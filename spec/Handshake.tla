------------------------------ MODULE Handshake ------------------------------
(***************************************************************************)
(* The RTMP handshake as a stage machine fed with arbitrary fragments.     *)
(* HsStep(st, k): one process call delivering k bytes to a peer in state   *)
(* st = [stage, buf, emitted]; returns the new state, how many bytes it    *)
(* emits, whether it reports completion and how many bytes it hands back.  *)
(* P is the packet size: 1536 on the wire, 2..3 in the exhaustive model.   *)
(*   stages: NeedToSend -> WaitP0 -> WaitP1 -> WaitP2 -> Complete          *)
(*   NeedToSend: emits version byte + packet 1 (1 + P bytes)               *)
(*   WaitP0: consumes the 1-byte version   WaitP1: consumes P, emits P     *)
(*   WaitP2: consumes P, completes, hands back whatever is still buffered  *)
(***************************************************************************)
EXTENDS Naturals, Sequences, TLC

CONSTANT P

HsInit == [stage |-> "NeedToSend", buf |-> 0, emitted |-> 0]

RECURSIVE Run(_, _)
\* run the stages until one lacks input; acc = [st, out]
Run(st, out) ==
    CASE st.stage = "NeedToSend" -> Run([st EXCEPT !.stage = "WaitP0", !.emitted = st.emitted + 1 + P], out + 1 + P)
      [] st.stage = "WaitP0" -> IF st.buf >= 1 THEN Run([st EXCEPT !.stage = "WaitP1", !.buf = st.buf - 1], out) ELSE [st |-> st, out |-> out]
      [] st.stage = "WaitP1" -> IF st.buf >= P THEN Run([st EXCEPT !.stage = "WaitP2", !.buf = st.buf - P, !.emitted = st.emitted + P], out + P)
                                ELSE [st |-> st, out |-> out]
      [] st.stage = "WaitP2" -> IF st.buf >= P THEN [st |-> [st EXCEPT !.stage = "Complete", !.buf = st.buf - P], out |-> out]
                                ELSE [st |-> st, out |-> out]
      [] st.stage = "Complete" -> [st |-> st, out |-> out]

\* process_bytes with k bytes
HsStep(st, k) ==
    IF st.stage = "Complete" THEN [err |-> TRUE, st |-> st, out |-> 0, done |-> TRUE, left |-> 0]
    ELSE LET r == Run([st EXCEPT !.buf = st.buf + k], 0) IN
         IF r.st.stage = "Complete"
         THEN [err |-> FALSE, st |-> [r.st EXCEPT !.buf = 0], out |-> r.out, done |-> TRUE, left |-> r.st.buf]
         ELSE [err |-> FALSE, st |-> r.st, out |-> r.out, done |-> FALSE, left |-> 0]

\* generate_outbound_p0_and_p1
HsGen(st) == [st |-> [st EXCEPT !.stage = "WaitP0", !.emitted = st.emitted + 1 + P], out |-> 1 + P]
=============================================================================
