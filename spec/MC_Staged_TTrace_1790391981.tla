---- MODULE MC_Staged_TTrace_1790391981 ----
EXTENDS Sequences, TLCExt, Toolbox, MC_Staged, Naturals, TLC

_expression ==
    LET MC_Staged_TEExpression == INSTANCE MC_Staged_TEExpression
    IN MC_Staged_TEExpression!expression
----

_trace ==
    LET MC_Staged_TETrace == INSTANCE MC_Staged_TETrace
    IN MC_Staged_TETrace!trace
----

_inv ==
    ~(
        TLCGet("level") = Len(_TETrace)
        /\
        buf = (0)
        /\
        fed = (3)
        /\
        field = (2)
    )
----

_init ==
    /\ fed = _TETrace[1].fed
    /\ buf = _TETrace[1].buf
    /\ field = _TETrace[1].field
----

_next ==
    /\ \E i,j \in DOMAIN _TETrace:
        /\ \/ /\ j = i + 1
              /\ i = TLCGet("level")
        /\ fed  = _TETrace[i].fed
        /\ fed' = _TETrace[j].fed
        /\ buf  = _TETrace[i].buf
        /\ buf' = _TETrace[j].buf
        /\ field  = _TETrace[i].field
        /\ field' = _TETrace[j].field

\* Uncomment the ASSUME below to write the states of the error trace
\* to the given file in Json format. Note that you can pass any tuple
\* to `JsonSerialize`. For example, a sub-sequence of _TETrace.
    \* ASSUME
    \*     LET J == INSTANCE Json
    \*         IN J!JsonSerialize("MC_Staged_TTrace_1790391981.json", _TETrace)

=============================================================================

 Note that you can extract this module `MC_Staged_TEExpression`
  to a dedicated file to reuse `expression` (the module in the 
  dedicated `MC_Staged_TEExpression.tla` file takes precedence 
  over the module `MC_Staged_TEExpression` below).

---- MODULE MC_Staged_TEExpression ----
EXTENDS Sequences, TLCExt, Toolbox, MC_Staged, Naturals, TLC

expression == 
    [
        \* To hide variables of the `MC_Staged` spec from the error trace,
        \* remove the variables below.  The trace will be written in the order
        \* of the fields of this record.
        fed |-> fed
        ,buf |-> buf
        ,field |-> field
        
        \* Put additional constant-, state-, and action-level expressions here:
        \* ,_stateNumber |-> _TEPosition
        \* ,_fedUnchanged |-> fed = fed'
        
        \* Format the `fed` variable as Json value.
        \* ,_fedJson |->
        \*     LET J == INSTANCE Json
        \*     IN J!ToJson(fed)
        
        \* Lastly, you may build expressions over arbitrary sets of states by
        \* leveraging the _TETrace operator.  For example, this is how to
        \* count the number of times a spec variable changed up to the current
        \* state in the trace.
        \* ,_fedModCount |->
        \*     LET F[s \in DOMAIN _TETrace] ==
        \*         IF s = 1 THEN 0
        \*         ELSE IF _TETrace[s].fed # _TETrace[s-1].fed
        \*             THEN 1 + F[s-1] ELSE F[s-1]
        \*     IN F[_TEPosition - 1]
    ]

=============================================================================



Parsing and semantic processing can take forever if the trace below is long.
 In this case, it is advised to uncomment the module below to deserialize the
 trace from a generated binary file.

\*
\*---- MODULE MC_Staged_TETrace ----
\*EXTENDS IOUtils, MC_Staged, TLC
\*
\*trace == IODeserialize("MC_Staged_TTrace_1790391981.bin", TRUE)
\*
\*=============================================================================
\*

---- MODULE MC_Staged_TETrace ----
EXTENDS MC_Staged, TLC

trace == 
    <<
    ([buf |-> 0,fed |-> 0,field |-> 1]),
    ([buf |-> 0,fed |-> 1,field |-> 2]),
    ([buf |-> 0,fed |-> 2,field |-> 2]),
    ([buf |-> 0,fed |-> 3,field |-> 2])
    >>
----


=============================================================================

---- CONFIG MC_Staged_TTrace_1790391981 ----
CONSTANTS
    Widths <- W1
    Eager = TRUE

INVARIANT
    _inv

CHECK_DEADLOCK
    \* CHECK_DEADLOCK off because of PROPERTY or INVARIANT above.
    FALSE

INIT
    _init

NEXT
    _next

CONSTANT
    _TETrace <- _trace

ALIAS
    _expression
=============================================================================
\* Generated on Sat Sep 26 03:06:22 UTC 2026