--------------------------- MODULE ClockFlatProof ---------------------------
(***************************************************************************)
(* TLAPS: the clock laws of ClockFlat hold for EVERY pair (a, d) in        *)
(* [0, 2^32)^2 - a deductive confirmation (SMT back end) of what Apalache  *)
(* establishes symbolically.  One theorem per law keeps the obligations    *)
(* small.                                                                  *)
(***************************************************************************)
EXTENDS ClockFlat, TLAPS

ASSUME MDef == M = 4294967296

LEMMA HDef == H = 2147483648
  BY MDef, SMT DEF H

LEMMA Mod1 == \A x \in Int : (0 <= x /\ x < M) => x % M = x
  BY MDef, SMT
LEMMA Mod2 == \A x \in Int : (M <= x /\ x < 2 * M) => x % M = x - M
  BY MDef, SMT

THEOREM T_AddSubInverse == Init => AddSubInverse
<1> SUFFICES ASSUME Init PROVE AddSubInverse
  OBVIOUS
<1>0. a \in Int /\ d \in Int /\ 0 <= a /\ a < M /\ 0 <= d /\ d < M
  BY DEF Init
<1>1. ImplSub(ImplAdd(a, d), d) = a
  <2>1. CASE a + d < M
    <3>1. ImplAdd(a, d) = a + d
      BY <1>0, <2>1, Mod1, MDef, SMT DEF ImplAdd
    <3>2. ImplSub(ImplAdd(a, d), d) = (a + d - d + M) % M
      BY <3>1, <1>0, MDef, SMT DEF ImplSub
    <3>3. a + d - d + M = a + M
      BY <1>0, MDef, SMT
    <3>4. (a + M) % M = a
      BY <1>0, Mod2, MDef, SMT
    <3> QED BY <3>2, <3>3, <3>4, <1>0, MDef, SMT
  <2>2. CASE a + d >= M
    <3>1. ImplAdd(a, d) = a + d - M
      BY <1>0, <2>2, Mod2, MDef, SMT DEF ImplAdd
    <3>2. ImplSub(ImplAdd(a, d), d) = (a + d - M - d + M) % M
      BY <3>1, <1>0, MDef, SMT DEF ImplSub
    <3>3. a + d - M - d + M = a
      BY <1>0, MDef, SMT
    <3>4. a % M = a
      BY <1>0, Mod1, MDef, SMT
    <3> QED BY <3>2, <3>3, <3>4, <1>0, MDef, SMT
  <2> QED BY <1>0, <2>1, <2>2, MDef, SMT
<1>2. ImplAdd(ImplSub(a, d), d) = a
  <2>1. CASE a >= d
    <3>1. ImplSub(a, d) = a - d
      <4>1. a - d + M >= M /\ a - d + M < 2 * M /\ a - d + M \in Int
        BY <1>0, <2>1, MDef, SMT
      <4>2. (a - d + M) % M = a - d
        BY <1>0, <2>1, <4>1, MDef, SMT
      <4> QED BY <4>2, <1>0, MDef, SMT DEF ImplSub
    <3>2. ImplAdd(ImplSub(a, d), d) = (a - d + d) % M
      BY <3>1, <1>0, MDef, SMT DEF ImplAdd
    <3>3. a - d + d = a
      BY <1>0, MDef, SMT
    <3>4. a % M = a
      BY <1>0, Mod1, MDef, SMT
    <3> QED BY <3>2, <3>3, <3>4, <1>0, MDef, SMT
  <2>2. CASE a < d
    <3>1. ImplSub(a, d) = a - d + M
      <4>1. a - d + M >= 0 /\ a - d + M < M /\ a - d + M \in Int
        BY <1>0, <2>2, MDef, SMT
      <4> QED BY <4>1, Mod1, MDef, SMT DEF ImplSub
    <3>2. ImplAdd(ImplSub(a, d), d) = (a - d + M + d) % M
      BY <3>1, <1>0, MDef, SMT DEF ImplAdd
    <3>3. a - d + M + d = a + M
      BY <1>0, MDef, SMT
    <3>4. (a + M) % M = a
      BY <1>0, Mod2, MDef, SMT
    <3> QED BY <3>2, <3>3, <3>4, <1>0, MDef, SMT
  <2> QED BY <1>0, <2>1, <2>2, MDef, SMT
<1> QED BY <1>1, <1>2 DEF AddSubInverse

THEOREM T_ExactModulo == Init => ExactModulo
  BY MDef, HDef, SMT DEF Init, ExactModulo, ImplAdd
THEOREM T_EqualIff == Init => EqualIff
  BY MDef, HDef, SMT DEF Init, EqualIff, ImplCmp
THEOREM T_Antisymmetric == Init => Antisymmetric
  BY MDef, HDef, SMT DEF Init, Antisymmetric, ImplCmp
THEOREM T_OrderOfSum == Init => OrderOfSum
<1> SUFFICES ASSUME Init PROVE OrderOfSum
  OBVIOUS
<1>0. a \in Int /\ d \in Int /\ 0 <= a /\ a < M /\ 0 <= d /\ d < M
  BY DEF Init
<1>1. CASE a + d < M
  <2>1. b = a + d
    BY <1>0, <1>1, Mod1, MDef, SMT DEF b, ImplAdd
  <2> QED BY <1>0, <1>1, <2>1, MDef, HDef, SMT DEF OrderOfSum, ImplCmp
<1>2. CASE a + d >= M
  <2>1. b = a + d - M
    BY <1>0, <1>2, Mod2, MDef, SMT DEF b, ImplAdd
  <2> QED BY <1>0, <1>2, <2>1, MDef, HDef, SMT DEF OrderOfSum, ImplCmp
<1> QED BY <1>0, <1>1, <1>2, MDef, SMT

THEOREM T_AgreesWithLater == Init => AgreesWithLater
  BY MDef, HDef, SMT DEF Init, AgreesWithLater, ImplCmp, Later, Ahead
THEOREM T_Antipodal == Init => Antipodal
  BY MDef, HDef, SMT DEF Init, Antipodal, ImplCmp, Ahead
THEOREM T_Inv == Init => Inv
  BY T_AddSubInverse, T_ExactModulo, T_EqualIff, T_Antisymmetric, T_OrderOfSum, T_AgreesWithLater, T_Antipodal, SMT DEF Inv
=============================================================================
