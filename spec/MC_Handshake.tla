----------------------------- MODULE MC_Handshake -----------------------------
(***************************************************************************)
(* Two handshake peers (A, B) and two byte channels, every fragmentation   *)
(* and interleaving, either side starting, trailing application bytes      *)
(* following each side's second packet (C05 at design level).               *)
(*   fl[s]    bytes in flight towards s                                     *)
(*   rcv[s]   bytes delivered to s so far                                   *)
(*   app[s]   bytes s received as application data (handed back by the      *)
(*            completion call, or routed past the completed handshake)      *)
(*   sentT[s] s has put its T trailing application bytes on the wire        *)
(***************************************************************************)
EXTENDS Handshake, Integers

CONSTANT T
Sides == {"A", "B"}
Other(s) == IF s = "A" THEN "B" ELSE "A"

VARIABLES hs, fl, rcv, app, sentT, bad
vars == <<hs, fl, rcv, app, sentT, bad>>

Init == /\ hs = [s \in Sides |-> HsInit] /\ fl = [s \in Sides |-> 0] /\ rcv = [s \in Sides |-> 0]
        /\ app = [s \in Sides |-> 0] /\ sentT = [s \in Sides |-> FALSE] /\ bad = ""

Generate(s) ==
    /\ hs[s].stage = "NeedToSend"
    /\ LET r == HsGen(hs[s]) IN
       /\ hs' = [hs EXCEPT ![s] = r.st]
       /\ fl' = [fl EXCEPT ![Other(s)] = @ + r.out]
    /\ UNCHANGED <<rcv, app, sentT, bad>>

Deliver(s, k) ==
    /\ k \in 1 .. fl[s]
    /\ rcv' = [rcv EXCEPT ![s] = @ + k]
    /\ IF hs[s].stage = "Complete"
       THEN \* the driver routes everything after completion to the application
            /\ app' = [app EXCEPT ![s] = @ + k] /\ fl' = [fl EXCEPT ![s] = @ - k]
            /\ UNCHANGED <<hs, bad>>
       ELSE LET r == HsStep(hs[s], k) IN
            /\ hs' = [hs EXCEPT ![s] = r.st]
            /\ fl' = [fl EXCEPT ![s] = @ - k, ![Other(s)] = @ + r.out]
            /\ app' = [app EXCEPT ![s] = @ + r.left]
            /\ bad' = IF r.err THEN "error reported"
                      ELSE IF r.done /\ rcv[s] + k < 1 + 2 * P THEN "completion reported before the peer's 1 + 2P bytes arrived"
                      ELSE IF r.done /\ r.left # rcv[s] + k - (1 + 2 * P) THEN "handed back bytes are not exactly what followed the handshake"
                      ELSE bad
    /\ UNCHANGED sentT

\* s's application sends its data as soon as s's own handshake bytes are all out
SendTrailing(s) ==
    /\ ~sentT[s] /\ hs[s].emitted = 1 + 2 * P
    /\ sentT' = [sentT EXCEPT ![s] = TRUE]
    /\ fl' = [fl EXCEPT ![Other(s)] = @ + T]
    /\ UNCHANGED <<hs, rcv, app, bad>>

Next == \E s \in Sides : Generate(s) \/ SendTrailing(s) \/ (\E k \in 1 .. (2 + 2 * P + T) : Deliver(s, k))

Spec == Init /\ [][Next]_vars /\ WF_vars(Next)

NoError == bad = ""
EmitExactly == \A s \in Sides : hs[s].emitted <= 1 + 2 * P /\ (hs[s].stage = "Complete" => hs[s].emitted = 1 + 2 * P)
NoEarlyCompletion == \A s \in Sides : hs[s].stage = "Complete" => rcv[s] >= 1 + 2 * P
\* every byte is somewhere: consumed by the handshake, buffered, with the application, or in flight
Conservation == \A s \in Sides :
    rcv[s] + fl[s] = hs[Other(s)].emitted + (IF sentT[Other(s)] THEN T ELSE 0)
AppOnlyTrailing == \A s \in Sides : app[s] <= T /\ (hs[s].stage = "Complete" => app[s] = rcv[s] - (1 + 2 * P))

AllDone == \A s \in Sides : hs[s].stage = "Complete" /\ app[s] = T
Live == <>[]AllDone
=============================================================================
