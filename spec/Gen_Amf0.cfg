SPECIFICATION GenSpec
CONSTANTS
  Deep = TRUE
  Deeper = FALSE
INVARIANTS RoundTrip PrefixOK BadMarker AllRepresentable Emit
CHECK_DEADLOCK FALSE
