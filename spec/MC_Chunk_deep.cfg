SPECIFICATION Spec
CONSTANTS
  Base = 2
  Thr <- ThrMC2
  Csids = {2,3}
  Types = {8,9}
  Msids <- MsidsMC
  Lens = {0,1,3}
  Sizes = {1,2}
  MaxMsgs = 3
  CtlLen = 2
  DropRule = TRUE
  Interleave = FALSE
  Policy = "spec"
  Shared = FALSE
INVARIANTS DeliveredExact NoOrphans SizesAgree
CHECK_DEADLOCK FALSE
