SPECIFICATION Spec
CONSTANTS
  Base = 65536
  Thr <- ThrReal
  MaxSteps = 3
  K = 2
  Fine = FALSE
VIEW GenView
INVARIANT Delivered
INVARIANT Emit
CHECK_DEADLOCK FALSE
