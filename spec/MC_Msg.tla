------------------------------- MODULE MC_Msg -------------------------------
(***************************************************************************)
(* Small-domain exhaustive check of RtmpMsg.tla against itself (what makes *)
(* it usable as the oracle of C13): for every well-formed message M over   *)
(* boundary field values, the body Body(M) written field by field          *)
(*   Sound      matches M under its type id (Matches is not vacuous)       *)
(*   Injective  matches no OTHER message of the universe (a body denotes   *)
(*              one message: decoding is unambiguous)                      *)
(*   Aliases    a data/command body is accepted under 15/17 only with      *)
(*              alias = TRUE, and 17 also with a leading zero byte         *)
(***************************************************************************)
EXTENDS RtmpMsg, FiniteSets

WordsB == {<<0, 0>>, <<0, 1>>, <<32767, 65535>>, <<32768, 0>>, <<65535, 65535>>}
Evs == {"StreamBegin", "StreamEof", "StreamDry", "SetBufferLength", "StreamIsRecorded", "PingRequest", "PingResponse", "BufferEmpty", "BufferReady"}
NumA == [t |-> "n", b |-> <<64, 8, 0, 0, 0, 0, 0, 0>>]
StrA == [t |-> "s", s |-> <<[l |-> <<107>>]>>]
Vals == {<<>>, <<NumA>>, <<StrA, NumA>>}

Universe ==
       {[k |-> c, v |-> x] : c \in {"SetChunkSize", "Abort", "Ack", "WinAck"}, x \in WordsB}
  \cup {[k |-> "SetPeerBw", v |-> x, lt |-> t] : x \in WordsB, t \in {"Hard", "Soft", "Dynamic"}}
  \cup {[k |-> "UserControl", et |-> e, sid |-> IF e \in StreamEvents \cup {"SetBufferLength"} THEN <<x>> ELSE <<>>,
         buf |-> IF e = "SetBufferLength" THEN <<y>> ELSE <<>>, ts |-> IF e \in {"PingRequest", "PingResponse"} THEN <<x>> ELSE <<>>] :
            e \in Evs, x \in WordsB, y \in {<<0, 0>>, <<65535, 65535>>}}
  \cup {[k |-> c, data |-> d] : c \in {"Audio", "Video"}, d \in {<<>>, <<[l |-> <<1, 2, 3>>]>>}}
  \cup {[k |-> "Data", vals |-> vs] : vs \in Vals}
  \cup {[k |-> "Command", name |-> <<[l |-> <<112>>]>>, txn |-> <<63, 240, 0, 0, 0, 0, 0, 0>>, obj |-> [t |-> "z"], args |-> vs] : vs \in Vals}
  \cup {[k |-> "Unknown", ty |-> t, data |-> <<[l |-> <<9>>]>>] : t \in {0, 7, 16, 19, 22, 255}}

Body(M) ==
    IF IsFixed(M) THEN Lit(Fixed(M))
    ELSE IF M.k \in {"Audio", "Video", "Unknown"} THEN M.data
    ELSE IF M.k = "Data" THEN Lit(EncSeq(NormSeq(M.vals), 1))
    ELSE Lit(EncSeq(CommandVals(M), 1))

VARIABLE m
Init == m \in Universe
Next == UNCHANGED m
Spec == Init /\ [][Next]_m

WF == WellFormed(m)
Sound == WF => Matches(m, TypeOf(m), Body(m), FALSE)
Injective == WF => \A m2 \in Universe : (m2 # m /\ WellFormed(m2) /\ TypeOf(m2) = TypeOf(m)) => ~Matches(m2, TypeOf(m), Body(m), FALSE)
Aliases == /\ (m.k = "Data" => /\ Matches(m, 15, Body(m), TRUE) /\ ~Matches(m, 15, Body(m), FALSE))
           /\ (m.k = "Command" => /\ Matches(m, 17, Body(m), TRUE) /\ ~Matches(m, 17, Body(m), FALSE)
                                  /\ Matches(m, 17, <<[l |-> <<0>>]>> \o Body(m), TRUE))
\* chunk sizes above 2^31-1 are not well-formed, everything else of the universe is
Sizes == (m.k = "SetChunkSize") => (WF <=> m.v[1] < 32768)
=============================================================================
