----------------------------- MODULE ChunkWire -----------------------------
(***************************************************************************)
(* RTMP 1.0 section 5.3.1 byte layout of one chunk, read from a byte       *)
(* string at a cursor, on behalf of the reference receiver of ChunkProto.  *)
(*                                                                         *)
(*   basic header   1 byte: fmt (2 bits) + csid 2..63                      *)
(*                  2 bytes (low 6 bits = 0): csid = second byte + 64      *)
(*                  3 bytes (low 6 bits = 1): csid = third*256 + second+64 *)
(*   message header fmt 0: ts(3) len(3) type(1) stream id(4, LITTLE endian)*)
(*                  fmt 1: delta(3) len(3) type(1)                         *)
(*                  fmt 2: delta(3)           fmt 3: nothing               *)
(*   extended timestamp (4, big endian) iff the 24-bit field (own or, for  *)
(*                  fmt 3, inherited) is 0xFFFFFF                          *)
(*   payload        min(chunk size, bytes still missing of the message)    *)
(*                                                                         *)
(* Only meaningful with Base = 65536.                                      *)
(***************************************************************************)
EXTENDS ChunkProto, Bytes

W24(b) == <<b[1], b[2] * 256 + b[3]>>                         \* 3 bytes big endian -> word
N24(b) == b[1] * 65536 + b[2] * 256 + b[3]                    \* 3 bytes big endian -> Nat
W32BE(b) == <<b[1] * 256 + b[2], b[3] * 256 + b[4]>>
W32LE(b) == <<b[4] * 256 + b[3], b[2] * 256 + b[1]>>

NeedMore == [res |-> "more"]
Illegal(r) == [res |-> "illegal", why |-> r]

\* Parse one chunk header at cursor c of B against receiver state st.
\* minimal: insist on the minimal csid encoding (what C07 demands of the library's output;
\*          a foreign sender may use the 3-byte form for 64..319).
\* Result: "more" | "illegal" | [res |-> "ok", ch |-> chunk record, pay |-> cursor of payload, after |-> cursor after chunk]
ParseChunk(B, c, st, minimal) ==
    LET av == Avail(B, c) IN
    IF av < 1 THEN NeedMore ELSE
    LET b0   == ByteAt(B, c)
        fmt  == b0 \div 64
        low  == b0 % 64
        blen == IF low = 0 THEN 2 ELSE IF low = 1 THEN 3 ELSE 1
    IN
    IF av < blen THEN NeedMore ELSE
    LET bh   == Take(B, c, blen)
        csid == IF low = 0 THEN bh[2] + 64 ELSE IF low = 1 THEN bh[3] * 256 + bh[2] + 64 ELSE low
        mlen == CASE fmt = 0 -> 11 [] fmt = 1 -> 7 [] fmt = 2 -> 3 [] fmt = 3 -> 0
    IN
    IF minimal /\ blen = 3 /\ csid < 320 THEN Illegal("chunk stream id not minimally encoded")
    ELSE IF av < blen + mlen THEN NeedMore ELSE
    LET mh    == Take(B, Adv(B, c, blen), mlen)
        field == IF fmt = 3 THEN Zero ELSE W24(SubSeq(mh, 1, 3))
        len   == IF fmt \in {0, 1} THEN N24(SubSeq(mh, 4, 6)) ELSE 0
        ty    == IF fmt \in {0, 1} THEN mh[7] ELSE 0
        msid  == IF fmt = 0 THEN W32LE(SubSeq(mh, 8, 11)) ELSE Zero
        ch0   == [csid |-> csid, fmt |-> fmt, field |-> field, hasExt |-> FALSE, ext |-> Zero,
                  len |-> len, ty |-> ty, msid |-> msid, n |-> 0]
    IN
    IF fmt # 0 /\ csid \notin DOMAIN st.mem THEN Illegal("compressed header without predecessor on its chunk stream")
    ELSE
    LET hasExt == ExpectExt(st, ch0)
        elen   == IF hasExt THEN 4 ELSE 0
    IN
    IF av < blen + mlen + elen THEN NeedMore ELSE
    LET ext == IF hasExt THEN W32BE(Take(B, Adv(B, c, blen + mlen), 4)) ELSE Zero
        ch1 == [ch0 EXCEPT !.hasExt = hasExt, !.ext = ext]
        n   == WantN(st, ch1)
        hl  == blen + mlen + elen
    IN
    IF av < hl + n THEN NeedMore
    ELSE [res |-> "ok", ch |-> [ch1 EXCEPT !.n = n],
          pay |-> Adv(B, c, hl), after |-> Adv(B, c, hl + n), hl |-> hl]
=============================================================================
