----------------------------- MODULE MC_Server -----------------------------
(***************************************************************************)
(* Exhaustive check, over small domains, that the server session state     *)
(* machine of ServerSession.tla satisfies property C09 IN EVERY HISTORY.   *)
(* The property is restated by history variables that are maintained from  *)
(* inputs and observations alone (never from the machine's state):         *)
(*   hConn/hApp  a connection request has been accepted, and for which app *)
(*   hIssued     request ids surfaced so far;  hOpen  those still open     *)
(*   hPub/hPlay  stream -> key of the currently accepted publish / play    *)
(*   hStreams    stream ids returned by createStream so far                *)
(* Judge(...) says, per step, what C09 demands of the observations; any    *)
(* disagreement is recorded in `bad`.                                      *)
(***************************************************************************)
EXTENDS ServerSession

CONSTANTS ReqIds, StreamIds, Msids, MaxSteps

Apps == {<<97>>, <<98, 47>>}
Keys == {<<1>>, <<2>>}
Txns == {0, 5}

VARIABLES st, hConn, hApp, hIssued, hOpen, hPub, hPlay, hStreams, bad, steps
vars == <<st, hConn, hApp, hIssued, hOpen, hPub, hPlay, hStreams, bad, steps>>

Init == /\ st = SrvInit /\ hConn = FALSE /\ hApp = <<>> /\ hIssued = {} /\ hOpen = NoF
        /\ hPub = NoF /\ hPlay = NoF /\ hStreams = {} /\ bad = "" /\ steps = 0

FreshReq == ReqIds \ st.ireq
FreshStream == StreamIds \ st.istream

Inputs ==
       {[m |-> "connect", txn |-> t, appkind |-> k, app |-> a, fresh |-> f] :
            t \in Txns, k \in {"ok", "missing"}, a \in Apps, f \in FreshReq}
  \cup {[m |-> "createStream", txn |-> t, fresh |-> f] : t \in Txns, f \in FreshStream}
  \cup {[m |-> c, msid |-> s, txn |-> t, args |-> g, key |-> k, mode |-> "live", fresh |-> f] :
            c \in {"publish", "play"}, s \in Msids, t \in {0}, g \in {"ok", "short"}, k \in Keys, f \in FreshReq}
  \cup {[m |-> c, arg |-> g, sid |-> s] : c \in {"closeStream", "deleteStream"}, g \in {"num", "none"}, s \in Msids}
  \cup {[m |-> c, msid |-> s, ts |-> 0] : c \in {"audio", "video"}, s \in Msids}
  \cup {[m |-> "setDataFrame", msid |-> s, shape |-> g] : s \in Msids, g \in {"ok", "notmeta"}}
  \cup {[m |-> "pingreq", ts |-> t] : t \in {0, 7}}
  \cup {[m |-> "winack"]}
  \cup {[m |-> c, id |-> i, zero |-> 0] : c \in {"accept", "reject"}, i \in ReqIds}
  \cup {[m |-> "finish_playing", sid |-> s] : s \in Msids}
  \cup {[m |-> "send_video", sid |-> s, ts |-> 0, drop |-> TRUE] : s \in {1}}

Surfaced(obs) == {k \in 1 .. Len(obs) : obs[k].o \in {"ConnectionRequested", "PublishStreamRequested", "PlayStreamRequested"}}

\* ---- what C09 demands, in terms of the history only
Judge(i, obs, stNew) ==
    IF i.m \in {"publish", "play"} THEN
        IF i.args = "ok" /\ hConn THEN
            IF ~(Len(obs) = 1 /\ obs[1].o = (IF i.m = "publish" THEN "PublishStreamRequested" ELSE "PlayStreamRequested")
                 /\ obs[1].req \notin hIssued /\ obs[1].app = hApp /\ obs[1].key = i.key)
            THEN "request after accepted connection not surfaced with a fresh id, app and key" ELSE ""
        ELSE IF obs # <<[o |-> "Error", msid |-> i.msid, txn |-> i.txn]>>
             THEN "request before accepted connection (or malformed) not answered by exactly an error" ELSE ""
    ELSE IF i.m = "connect" /\ i.appkind = "ok" THEN
        IF ~(Len(obs) = 1 /\ obs[1].o = "ConnectionRequested" /\ obs[1].req \notin hIssued) THEN "connect not surfaced with a fresh id" ELSE ""
    ELSE IF i.m \in {"accept", "reject"} THEN
        IF i.id \notin DOMAIN hOpen THEN
            IF obs # ErrObs \/ stNew # st THEN "accept/reject of an id that is not open was not refused without side effects" ELSE ""
        ELSE IF obs = ErrObs /\ ~(i.m = "accept" /\ hOpen[i.id].k # "connect" /\ hOpen[i.id].sid \notin hStreams)
                             /\ ~(i.m = "accept" /\ hOpen[i.id].k # "connect" /\ stNew.reqs # st.reqs)
             THEN "open request could not be accepted/rejected" ELSE ""
    ELSE IF i.m = "createStream" THEN
        IF ~(Len(obs) = 1 /\ obs[1].o = "CreateResult" /\ obs[1].txn = i.txn /\ obs[1].sid \notin hStreams)
        THEN "createStream not answered under the caller's transaction id with a never-issued stream id" ELSE ""
    ELSE IF i.m \in {"audio", "video"} THEN
        IF i.msid \in DOMAIN hPub
        THEN IF obs # <<[o |-> "Media", kind |-> i.m, app |-> hApp, key |-> hPub[i.msid], ts |-> i.ts]>>
             THEN "media on an accepted publishing stream not raised exactly once with its key and app" ELSE ""
        ELSE IF obs # <<>> THEN "media raised for a stream without a currently accepted publish request" ELSE ""
    ELSE IF i.m = "setDataFrame" /\ i.shape = "ok" THEN
        IF i.msid \in DOMAIN hPub
        THEN IF obs # <<[o |-> "Metadata", app |-> hApp, key |-> hPub[i.msid]]>> THEN "metadata not raised for an accepted publishing stream" ELSE ""
        ELSE IF obs # <<>> THEN "metadata raised for a stream without a currently accepted publish request" ELSE ""
    ELSE IF i.m \in {"closeStream", "deleteStream"} /\ i.arg = "num" THEN
        IF i.sid \in DOMAIN hPub THEN
            IF obs # <<[o |-> "PublishStreamFinished", app |-> hApp, key |-> hPub[i.sid]]>> THEN "closing a publishing stream did not raise exactly one publish-finished event" ELSE ""
        ELSE IF i.sid \in DOMAIN hPlay THEN
            IF obs # <<[o |-> "PlayStreamFinished", app |-> hApp, key |-> hPlay[i.sid]]>> THEN "closing a playing stream did not raise exactly one play-finished event" ELSE ""
        ELSE IF obs # <<>> THEN "finished event for a stream that was neither publishing nor playing" ELSE ""
    ELSE IF i.m = "pingreq" THEN
        IF obs # <<[o |-> "PingResponse", ts |-> i.ts]>> THEN "ping request not answered with the same timestamp" ELSE ""
    ELSE IF Surfaced(obs) # {} THEN "request surfaced by an unrelated input"
    ELSE ""

Step(i) ==
    LET r == SrvStep(st, i)
        obs == r.obs
        rq == IF i.m \in {"accept", "reject"} /\ i.id \in DOMAIN hOpen THEN hOpen[i.id] ELSE <<>>
        okAcc == i.m = "accept" /\ rq # <<>> /\ obs # ErrObs
        numClose == i.m \in {"closeStream", "deleteStream"} /\ i.arg = "num" /\ hConn
    IN
    /\ st' = r.st
    /\ bad' = Judge(i, obs, r.st)
    /\ steps' = steps + 1
    /\ hConn' = (hConn \/ (okAcc /\ rq.k = "connect"))
    /\ hApp' = IF okAcc /\ rq.k = "connect" THEN rq.app ELSE hApp
    /\ hIssued' = hIssued \cup {obs[k].req : k \in Surfaced(obs)}
    /\ hOpen' = LET o1 == IF rq # <<>> THEN Drop(hOpen, i.id) ELSE hOpen IN
                IF Surfaced(obs) = {} THEN o1
                ELSE LET e == obs[CHOOSE k \in Surfaced(obs) : TRUE] IN
                     Put(o1, e.req, IF e.o = "ConnectionRequested" THEN [k |-> "connect", app |-> e.app]
                                    ELSE [k |-> IF e.o = "PublishStreamRequested" THEN "publish" ELSE "play",
                                          key |-> e.key, sid |-> i.msid])
    /\ hPub' = IF okAcc /\ rq.k = "publish" THEN Put(hPub, rq.sid, rq.key)
               ELSE IF okAcc /\ rq.k = "play" THEN Drop(hPub, rq.sid)
               ELSE IF numClose THEN Drop(hPub, i.sid) ELSE hPub
    /\ hPlay' = IF okAcc /\ rq.k = "play" THEN Put(hPlay, rq.sid, rq.key)
                ELSE IF okAcc /\ rq.k = "publish" THEN Drop(hPlay, rq.sid)
                ELSE IF numClose THEN Drop(hPlay, i.sid)
                ELSE IF i.m = "finish_playing" /\ obs # ErrObs THEN Drop(hPlay, i.sid) ELSE hPlay
    /\ hStreams' = hStreams \cup {obs[k].sid : k \in {j \in 1 .. Len(obs) : obs[j].o = "CreateResult"}}

View == <<st, hConn, hApp, hIssued, hOpen, hPub, hPlay, hStreams, bad>>

Next == bad = "" /\ steps < MaxSteps /\ \E i \in Inputs : Step(i)
Spec == Init /\ [][Next]_vars

C09 == bad = ""

\* the machine's bookkeeping and the history agree (what makes the probe comparison of Trace_Server meaningful)
Agree ==
    /\ hConn = (st.conn = "connected")
    /\ DOMAIN hOpen = DOMAIN st.reqs
    /\ hIssued = st.ireq
    /\ \A s \in DOMAIN hPub : s \in DOMAIN st.streams /\ st.streams[s] = [st |-> "publishing", key |-> hPub[s]]
    /\ \A s \in DOMAIN st.streams : st.streams[s].st = "publishing" => s \in DOMAIN hPub
    /\ \A s \in DOMAIN st.streams : st.streams[s].st = "playing" <=> s \in DOMAIN hPlay
=============================================================================
