------------------------------- MODULE U32 -------------------------------
(***************************************************************************)
(* Machine words as two limbs <<hi, lo>> over CONSTANT Base.               *)
(*                                                                         *)
(* TLC integers are 32-bit signed, so 2^32 is not a TLC value.  With       *)
(* Base = 65536 a word is a u32 (used by every trace specification, i.e.   *)
(* with the REAL constants); with Base = 2..16 the very same operators     *)
(* give arithmetic modulo Base^2, which is what the exhaustive (small      *)
(* constant) configurations use.  All intermediate values stay below       *)
(* 3 * Base, so nothing overflows for Base <= 65536.                       *)
(***************************************************************************)
EXTENDS Naturals

CONSTANT
    \* @type: Int;
    Base

Word == (0 .. Base - 1) \X (0 .. Base - 1)
\* @type: <<Int, Int>>;
Zero == <<0, 0>>
\* @type: <<Int, Int>>;
One  == <<0, 1>>
\* @type: <<Int, Int>>;
MaxW == <<Base - 1, Base - 1>>

\* @type: (<<Int, Int>>, <<Int, Int>>) => <<Int, Int>>;
Add(a, b) ==
    LET lo == a[2] + b[2]
    IN  <<(a[1] + b[1] + (lo \div Base)) % Base, lo % Base>>

\* @type: (<<Int, Int>>, <<Int, Int>>) => <<Int, Int>>;
Sub(a, b) ==
    LET lo == Base + a[2] - b[2]
        br == IF lo < Base THEN 1 ELSE 0
    IN  <<(2 * Base + a[1] - b[1] - br) % Base, lo % Base>>

\* @type: (<<Int, Int>>, <<Int, Int>>) => Bool;
Lt(a, b) == a[1] < b[1] \/ (a[1] = b[1] /\ a[2] < b[2])
\* @type: (<<Int, Int>>, <<Int, Int>>) => Bool;
Le(a, b) == a = b \/ Lt(a, b)
\* @type: (<<Int, Int>>, <<Int, Int>>) => <<Int, Int>>;
MinW(a, b) == IF Lt(a, b) THEN a ELSE b
\* @type: (<<Int, Int>>, <<Int, Int>>) => <<Int, Int>>;
MaxOf(a, b) == IF Lt(a, b) THEN b ELSE a

\* half of the modulus, Base^2 / 2 (Base is even in every configuration)
\* @type: <<Int, Int>>;
Half == <<Base \div 2, 0>>

\* The RTMP reading of "a is later than b": a is 1 .. 2^31-1 ahead of b (mod 2^32)
\* @type: (<<Int, Int>>, <<Int, Int>>) => <<Int, Int>>;
Ahead(a, b) == Sub(a, b)                     \* how far a is ahead of b
\* @type: (<<Int, Int>>, <<Int, Int>>) => Bool;
Later(a, b) == LET d == Sub(a, b) IN d # Zero /\ Lt(d, Half)

\* small naturals <-> words (n < Base^2 and n within TLC's integer range)
\* @type: (Int) => <<Int, Int>>;
FromNat(n) == <<n \div Base, n % Base>>
=============================================================================
