----------------------------- MODULE MC_Client -----------------------------
(***************************************************************************)
(* Exhaustive check that ClientSession.tla satisfies property C10 in every *)
(* history over a small alphabet.  The property is restated over a history *)
(* state hS that is driven by OBSERVATIONS only (events raised, commands   *)
(* emitted), never by the machine's own state:                             *)
(*   D -ConnAccepted-> C -OutPlay-> PlayReq -PlaybackAccepted-> Playing    *)
(*                     C -OutPublish-> PubReq -PublishAccepted-> Publishing*)
(*   any -stop call that emitted deleteStream / was in a play|publish      *)
(*        phase-> C                                                        *)
(***************************************************************************)
EXTENDS ClientSession

CONSTANTS TxnIds, Sids, MaxSteps

Keys == {<<1>>, <<2>>}
VARIABLES st, hS, hTx, hOpen, hActive, bad, steps
vars == <<st, hS, hTx, hOpen, hActive, bad, steps>>
View == <<st, hS, hTx, hOpen, hActive, bad>>

Init == st = CliInit /\ hS = "D" /\ hTx = {} /\ hOpen = CNoF /\ hActive = <<>> /\ bad = "" /\ steps = 0

Fresh == TxnIds \ st.itxn

Inputs ==
       {[m |-> "request_connection", app |-> <<97>>, fresh |-> f] : f \in Fresh}
  \cup {[m |-> "request_playback", key |-> k, fresh |-> f] : k \in Keys, f \in Fresh}
  \cup {[m |-> "request_publishing", key |-> k, ptype |-> "live", fresh |-> f] : k \in Keys, f \in Fresh}
  \cup {[m |-> c] : c \in {"stop_playback", "stop_publishing", "send_ping"}}
  \cup {[m |-> c, ts |-> 0, drop |-> FALSE] : c \in {"publish_audio", "publish_video"}}
  \cup {[m |-> "publish_metadata"]}
  \cup {[m |-> c, txn |-> t, txnint |-> TRUE, hassid |-> h, sid |-> s] : c \in {"result", "error"}, t \in TxnIds \cup {99}, h \in BOOLEAN, s \in Sids}
  \cup {[m |-> "onStatus", code |-> c] : c \in {"play_start", "publish_start", "other", "malformed"}}
  \cup {[m |-> c, msid |-> s, ts |-> 0] : c \in {"audio", "video"}, s \in Sids}
  \cup {[m |-> "onMetaData", msid |-> s, shape |-> "ok"] : s \in Sids}
  \cup {[m |-> "pingreq", ts |-> 7]}

Has(obs, name) == \E k \in 1 .. Len(obs) : obs[k].o = name
Get(obs, name) == obs[CHOOSE k \in 1 .. Len(obs) : obs[k].o = name]
Emits(obs) == \E k \in 1 .. Len(obs) : obs[k].o \in {"OutConnect", "OutCreateStream", "OutPlay", "OutPublish", "OutDeleteStream", "OutMedia", "OutMetadata"}

Judge(i, obs, stNew) ==
    IF i.m = "request_connection" THEN
        IF hS = "D" THEN IF ~(Len(obs) = 1 /\ obs[1].o = "OutConnect" /\ obs[1].txn \notin hTx /\ obs[1].app = i.app) THEN "connect not emitted with a fresh transaction when disconnected" ELSE ""
        ELSE IF obs # CErr \/ stNew # st THEN "connect not refused without effect when not disconnected" ELSE ""
    ELSE IF i.m \in {"request_playback", "request_publishing"} THEN
        IF hS = "C" THEN IF ~(Len(obs) = 1 /\ obs[1].o = "OutCreateStream" /\ obs[1].txn \notin hTx) THEN "play/publish request not started with a fresh createStream when connected" ELSE ""
        ELSE IF obs # CErr \/ stNew # st THEN "play/publish request not refused without effect outside the connected state" ELSE ""
    ELSE IF i.m \in {"publish_audio", "publish_video", "publish_metadata"} THEN
        IF hS = "Publishing" THEN IF ~(Len(obs) = 1 /\ obs[1].o \in {"OutMedia", "OutMetadata"} /\ <<obs[1].sid>> = hActive) THEN "media not emitted on the active stream while publishing" ELSE ""
        ELSE IF obs # CErr \/ stNew # st THEN "media/metadata not refused without effect when not publishing" ELSE ""
    ELSE IF i.m \in {"result", "error"} THEN
        IF i.txn \notin DOMAIN hOpen THEN
            IF obs # <<[o |-> "UnknownTxn"]>> \/ stNew # st THEN "answer to an unknown transaction not reported or applied" ELSE ""
        ELSE IF hOpen[i.txn].k = "connect" THEN
            IF i.m = "result" /\ ~Has(obs, "ConnAccepted") THEN "connect result did not raise the accepted event"
            ELSE IF i.m = "error" /\ obs # <<[o |-> "ConnRejected"]>> THEN "connect error did not raise the rejected event" ELSE ""
        ELSE IF i.m = "result" /\ i.hassid THEN
            IF hOpen[i.txn].k = "play" /\ ~(Has(obs, "OutPlay") /\ Get(obs, "OutPlay").sid = i.sid /\ Get(obs, "OutPlay").key = hOpen[i.txn].key) THEN "createStream result did not lead to a play command on the returned stream"
            ELSE IF hOpen[i.txn].k = "publish" /\ ~(Has(obs, "OutPublish") /\ Get(obs, "OutPublish").sid = i.sid /\ Get(obs, "OutPublish").key = hOpen[i.txn].key) THEN "createStream result did not lead to a publish command on the returned stream"
            ELSE ""
        ELSE ""
    ELSE IF i.m = "onStatus" /\ i.code = "play_start" /\ hS = "PlayReq" THEN
        IF obs # <<[o |-> "PlaybackAccepted"]>> THEN "play start status did not raise the accepted event" ELSE ""
    ELSE IF i.m = "onStatus" /\ i.code = "publish_start" /\ hS = "PubReq" THEN
        IF obs # <<[o |-> "PublishAccepted"]>> THEN "publish start status did not raise the accepted event" ELSE ""
    ELSE IF i.m \in {"audio", "video"} THEN
        IF hS \in {"PlayReq", "Playing"} /\ <<i.msid>> = hActive
        THEN IF obs # <<[o |-> "Media", kind |-> i.m, ts |-> i.ts]>> THEN "media for the active stream not raised while play is requested or running" ELSE ""
        ELSE IF Has(obs, "Media") THEN "media raised for another stream or outside play" ELSE ""
    ELSE IF i.m = "stop_playback" /\ hS \in {"PlayReq", "Playing"} THEN
        IF obs # <<[o |-> "OutDeleteStream", sid |-> hActive[1]]>> \/ stNew.state # "Connected" THEN "stop did not emit deleteStream for the active stream and return to connected" ELSE ""
    ELSE IF i.m = "stop_publishing" /\ hS \in {"PubReq", "Publishing"} THEN
        IF obs # <<[o |-> "OutDeleteStream", sid |-> hActive[1]]>> \/ stNew.state # "Connected" THEN "stop did not emit deleteStream for the active stream and return to connected" ELSE ""
    ELSE IF i.m = "pingreq" THEN IF obs # <<[o |-> "OutPingResponse", ts |-> i.ts]>> THEN "ping request not echoed" ELSE ""
    ELSE IF Emits(obs) THEN "request emitted by an input that does not ask for one"
    ELSE ""

Step(i) ==
    LET r == CliStep(st, i)
        obs == r.obs
    IN
    /\ st' = r.st /\ bad' = Judge(i, obs, r.st) /\ steps' = steps + 1
    /\ hTx' = hTx \cup {obs[k].txn : k \in {j \in 1 .. Len(obs) : obs[j].o \in {"OutConnect", "OutCreateStream"}}}
    /\ hOpen' = LET o1 == IF i.m \in {"result", "error"} /\ i.txn \in DOMAIN hOpen THEN CDrop(hOpen, i.txn) ELSE hOpen IN
                IF Has(obs, "OutConnect") THEN CPut(o1, Get(obs, "OutConnect").txn, [k |-> "connect"])
                ELSE IF Has(obs, "OutCreateStream") THEN CPut(o1, Get(obs, "OutCreateStream").txn,
                          [k |-> IF i.m = "request_playback" THEN "play" ELSE "publish", key |-> i.key])
                ELSE o1
    /\ hS' = IF Has(obs, "ConnAccepted") THEN "C"
             ELSE IF Has(obs, "OutPlay") THEN "PlayReq"
             ELSE IF Has(obs, "OutPublish") THEN "PubReq"
             ELSE IF Has(obs, "PlaybackAccepted") THEN "Playing"
             ELSE IF Has(obs, "PublishAccepted") THEN "Publishing"
             ELSE IF i.m = "stop_playback" /\ hS \in {"PlayReq", "Playing"} THEN "C"
             ELSE IF i.m = "stop_publishing" /\ hS \in {"PubReq", "Publishing"} THEN "C"
             ELSE hS
    /\ hActive' = IF Has(obs, "OutPlay") THEN <<Get(obs, "OutPlay").sid>>
                  ELSE IF Has(obs, "OutPublish") THEN <<Get(obs, "OutPublish").sid>>
                  ELSE IF (i.m = "stop_playback" /\ hS \in {"PlayReq", "Playing"}) \/ (i.m = "stop_publishing" /\ hS \in {"PubReq", "Publishing"}) THEN <<>>
                  ELSE hActive

Next == bad = "" /\ steps < MaxSteps /\ \E i \in Inputs : Step(i)
Spec == Init /\ [][Next]_vars
C10 == bad = ""
Agree == /\ hS = (CASE st.state = "Disconnected" -> "D" [] st.state = "Connected" -> "C" [] st.state = "PlayRequested" -> "PlayReq"
                    [] st.state = "Playing" -> "Playing" [] st.state = "PublishRequested" -> "PubReq" [] st.state = "Publishing" -> "Publishing")
         /\ hActive = st.active /\ DOMAIN hOpen = DOMAIN st.txns /\ hTx = st.itxn
=============================================================================
