---------------------------- MODULE ChunkProto ----------------------------
(***************************************************************************)
(* The RTMP chunk protocol (RTMP 1.0, section 5.3.1) at the level of       *)
(* chunk RECORDS: what a header of each format conveys, what a receiver    *)
(* remembers per chunk stream id (csid), how messages are reassembled,     *)
(* and which header formats a sender may legally choose.                   *)
(*                                                                         *)
(* Written from the protocol document, not from the library.  It is used   *)
(* by                                                                      *)
(*   - MC_Chunk      exhaustive design check, small constants (Base 2..4)  *)
(*   - Trace_Chunk   validation of real byte streams (Base = 65536): the   *)
(*                   bytes are turned into chunk records by ChunkWire and  *)
(*                   then go through the SAME receiver operator Rx below.  *)
(*                                                                         *)
(* A chunk record:                                                         *)
(*   [csid, fmt, field, hasExt, ext, len, ty, msid, n]                     *)
(*     field  the 24-bit timestamp field as a word (capped at Thr)         *)
(*     hasExt an extended timestamp field is present, ext its value        *)
(*     len/ty/msid as far as the format carries them (dummies otherwise)   *)
(*     n      payload bytes carried by this chunk                          *)
(***************************************************************************)
EXTENDS U32, Sequences, TLC

CONSTANT Thr          \* the word 0xFFFFFF (scaled down in small configurations)

Min2(a, b) == IF a < b THEN a ELSE b

Cap(v)    == IF Lt(v, Thr) THEN v ELSE Thr
NeedsExt(field) == field = Thr

NoFn == <<>>          \* the function with empty domain
Upd(f, k, v) == (k :> v) @@ f
Del(f, k) == [x \in (DOMAIN f) \ {k} |-> f[x]]

---------------------------------------------------------------------------
(* Receiver.  State: [mem, part, cs]                                        *)
(*   mem  : csid -> [ts, delta, field, len, ty, msid]  last header on csid  *)
(*   part : csid -> got   payload bytes received of the message in progress *)
(*   cs   : chunk size in force                                             *)
RxInit(cs0) == [mem |-> NoFn, part |-> NoFn, cs |-> cs0]

RxErr(st, r)      == [err |-> r,    st |-> st, out |-> <<>>, first |-> FALSE, hdr |-> <<>>]
RxOk(st, o, f, h) == [err |-> "ok", st |-> st, out |-> o,    first |-> f,     hdr |-> h]

MsgOf(h) == [ty |-> h.ty, msid |-> h.msid, ts |-> h.ts, len |-> h.len]

\* The header a first chunk of a message denotes, given the previous header on the csid
NewHdr(ch, prev, val) ==
    CASE ch.fmt = 0 -> [ts |-> val, delta |-> val, field |-> ch.field,
                        len |-> ch.len, ty |-> ch.ty, msid |-> ch.msid]
      [] ch.fmt = 1 -> [ts |-> Add(prev.ts, val), delta |-> val, field |-> ch.field,
                        len |-> ch.len, ty |-> ch.ty, msid |-> prev.msid]
      [] ch.fmt = 2 -> [ts |-> Add(prev.ts, val), delta |-> val, field |-> ch.field,
                        len |-> prev.len, ty |-> prev.ty, msid |-> prev.msid]
      [] ch.fmt = 3 -> [ts |-> Add(prev.ts, prev.delta), delta |-> prev.delta,
                        field |-> prev.field,
                        len |-> prev.len, ty |-> prev.ty, msid |-> prev.msid]

\* ExpectExt(st, ch): must this chunk carry an extended timestamp field?
\* (ChunkWire uses it to decide whether to read 4 more bytes.)
ExpectExt(st, ch) ==
    IF ch.fmt = 3
    THEN ch.csid \in DOMAIN st.mem /\ NeedsExt(st.mem[ch.csid].field)
    ELSE NeedsExt(ch.field)

\* Payload bytes the next chunk on ch.csid must carry (needs the header => computed in Rx)
Rx(st, ch) ==
    LET c      == ch.csid
        known  == c \in DOMAIN st.mem
        inprog == c \in DOMAIN st.part
    IN
    IF ch.fmt # 0 /\ ~known THEN RxErr(st, "compressed header without predecessor on its chunk stream")
    ELSE IF ch.hasExt # ExpectExt(st, ch) THEN RxErr(st, "extended timestamp field present iff 24-bit field is saturated: violated")
    ELSE
    LET prev == IF known THEN st.mem[c] ELSE <<>>
        val  == IF ch.fmt = 3 THEN prev.delta
                ELSE IF ch.hasExt THEN ch.ext ELSE ch.field
    IN
    IF ch.fmt = 3 /\ ch.hasExt /\ ch.ext # prev.delta
         THEN RxErr(st, "type-3 extended timestamp differs from the value it repeats")
    ELSE IF ~inprog THEN
        \* first chunk of a message
        LET h    == NewHdr(ch, prev, val)
            want == Min2(h.len, st.cs)
        IN  IF ch.n # want THEN RxErr(st, "first chunk payload is not min(message length, chunk size)")
            ELSE IF h.len = ch.n
                 THEN RxOk([st EXCEPT !.mem = Upd(st.mem, c, h)], <<MsgOf(h)>>, TRUE, h)
                 ELSE RxOk([st EXCEPT !.mem = Upd(st.mem, c, h),
                                      !.part = Upd(st.part, c, ch.n)], <<>>, TRUE, h)
    ELSE
        \* continuation chunk of the message in progress on c
        LET cur  == prev
            got  == st.part[c]
            want == Min2(cur.len - got, st.cs)
        IN  IF ch.fmt \in {1, 2} THEN RxErr(st, "delta header inside a message")
            ELSE IF ch.fmt = 0 /\ ~(val = cur.ts /\ ch.len = cur.len /\ ch.ty = cur.ty /\ ch.msid = cur.msid)
                 THEN RxErr(st, "continuation header changes the message")
            ELSE IF ch.n # want THEN RxErr(st, "continuation payload is not min(remaining, chunk size)")
            ELSE IF got + ch.n = cur.len
                 THEN RxOk([st EXCEPT !.part = Del(st.part, c)], <<MsgOf(cur)>>, FALSE, cur)
                 ELSE RxOk([st EXCEPT !.part = Upd(st.part, c, got + ch.n)], <<>>, FALSE, cur)

(* The library's ORIGINAL structure (before the repair of finding F10), kept as a negative   *)
(* control for C16: ONE partial buffer shared by all chunk streams.  A chunk of another      *)
(* csid arriving while a message is partially received is appended to that same buffer.     *)
(* part is keyed by the constant 0 instead of the csid.                                      *)
RxShared(st, ch) ==
    LET c == ch.csid
        known == c \in DOMAIN st.mem
        inprog == 0 \in DOMAIN st.part
    IN
    IF ch.fmt # 0 /\ ~known THEN RxErr(st, "compressed header without predecessor on its chunk stream")
    ELSE
    LET prev == IF known THEN st.mem[c] ELSE <<>>
        val  == IF ch.fmt = 3 THEN prev.delta ELSE IF ch.hasExt THEN ch.ext ELSE ch.field
        h    == IF inprog /\ ch.fmt = 3 THEN prev ELSE NewHdr(ch, prev, val)
        got  == IF inprog THEN st.part[0] ELSE 0
    IN  IF got > h.len THEN RxErr(st, "shared buffer holds more bytes than the message announced (length underflow)")
        ELSE IF got + ch.n >= h.len
             THEN RxOk([st EXCEPT !.mem = Upd(st.mem, c, h), !.part = NoFn], <<MsgOf(h)>>, ~inprog, h)
             ELSE RxOk([st EXCEPT !.mem = Upd(st.mem, c, h), !.part = Upd(NoFn, 0, got + ch.n)], <<>>, ~inprog, h)

\* How many payload bytes will the chunk with this header carry?  (for the wire parser,
\* which must know n before it can cut the payload out of the byte stream)
WantN(st, ch) ==
    LET c == ch.csid IN
    IF c \in DOMAIN st.part
    THEN Min2(st.mem[c].len - st.part[c], st.cs)
    ELSE IF ch.fmt \in {0, 1} THEN Min2(ch.len, st.cs)
    ELSE IF c \in DOMAIN st.mem THEN Min2(st.mem[c].len, st.cs)
    ELSE 0

---------------------------------------------------------------------------
(* Sender.  Memory per csid: [ts, delta, field, len, ty, msid, drop]        *)
(* "Any legal encoding": a format may omit a field only if it equals the    *)
(* predecessor's on that csid; and (the droppable rule) only if the         *)
(* predecessor is certain to have reached the peer.                         *)
TxLegal(tx, m, c, fmt, dropRule) ==
    \/ fmt = 0
    \/ /\ c \in DOMAIN tx
       /\ LET p == tx[c] IN
          /\ (dropRule => ~p.drop)
          /\ m.msid = p.msid
          /\ (fmt >= 2 => (m.len = p.len /\ m.ty = p.ty))
          /\ (fmt = 3 => Sub(m.ts, p.ts) = p.delta)

TxVal(tx, m, c, fmt) == IF fmt = 0 THEN m.ts
                        ELSE IF fmt = 3 THEN tx[c].delta
                        ELSE Sub(m.ts, tx[c].ts)

TxHdr(tx, m, c, fmt, drop) ==
    LET v == TxVal(tx, m, c, fmt) IN
    [ts |-> m.ts, delta |-> v, field |-> Cap(v), len |-> m.len, ty |-> m.ty,
     msid |-> m.msid, drop |-> drop]

\* chunk record of the first chunk
TxFirst(tx, m, c, fmt, cs) ==
    LET v == TxVal(tx, m, c, fmt)
        f == IF fmt = 3 THEN tx[c].field ELSE Cap(v)
    IN [csid |-> c, fmt |-> fmt, field |-> IF fmt = 3 THEN Zero ELSE f,
        hasExt |-> NeedsExt(f), ext |-> v,
        len |-> m.len, ty |-> m.ty, msid |-> m.msid, n |-> Min2(m.len, cs)]

\* chunk record of a continuation chunk (format 3) after `got` bytes
TxCont(h, c, got, cs) ==
    [csid |-> c, fmt |-> 3, field |-> Zero, hasExt |-> NeedsExt(h.field), ext |-> h.delta,
     len |-> h.len, ty |-> h.ty, msid |-> h.msid, n |-> Min2(h.len - got, cs)]

\* continuation chunk repeating a full header (what a sender that never compresses emits)
TxContFull(h, c, got, cs) ==
    [csid |-> c, fmt |-> 0, field |-> Cap(h.ts), hasExt |-> NeedsExt(Cap(h.ts)), ext |-> h.ts,
     len |-> h.len, ty |-> h.ty, msid |-> h.msid, n |-> Min2(h.len - got, cs)]

---------------------------------------------------------------------------
(* The library's compression POLICY, transcribed, as one particular sender: *)
(* csid from the message type, and the most compressed format its rules     *)
(* pick.  MC_Chunk checks that this policy is a refinement of TxLegal.      *)
LibCsid(ty) == CASE ty \in 1..6 -> 2 [] ty \in {18, 19} -> 3 [] ty = 9 -> 4 [] ty = 8 -> 5 [] OTHER -> 6

LibFmt(tx, m, c, forceFull) ==
    IF forceFull \/ c \notin DOMAIN tx THEN 0
    ELSE LET p == tx[c] IN
         IF p.drop THEN 0
         ELSE IF m.msid # p.msid THEN 0
         ELSE IF m.ty # p.ty \/ m.len # p.len THEN 1
         ELSE IF Sub(m.ts, p.ts) # p.delta THEN 2
         ELSE 3
=============================================================================
