------------------------------ MODULE MC_Staged ------------------------------
(***************************************************************************)
(* The resumable, staged chunk parser as the implementation structures it  *)
(* (C15 at design level): a chunk is a sequence of fields of known widths  *)
(* (basic header, timestamp, length, type, stream id, extended timestamp,  *)
(* payload); each stage CONSUMES its field only when the whole field is    *)
(* buffered and otherwise returns "not enough bytes" WITHOUT consuming.    *)
(* Feed(k) appends k units and runs stages until one lacks input.          *)
(* Invariant: the parser state after any sequence of feeds is a function   *)
(* of the number of units fed so far only - i.e. results cannot depend on  *)
(* how the stream was split across calls: it always equals the state a     *)
(* single call with all those units reaches.                               *)
(* Eager == TRUE models the classic mistake (a stage consumes what is      *)
(* there and forgets it) and must violate the invariant.                   *)
(***************************************************************************)
EXTENDS Naturals, Sequences, TLC

CONSTANTS Widths,   \* the stream: sequence of field widths, e.g. <<1, 2, 1, 2, 0, 3, ...>>
          Eager

Total == LET RECURSIVE Sum(_) Sum(k) == IF k = 0 THEN 0 ELSE Widths[k] + Sum(k - 1) IN Sum(Len(Widths))

\* two chunks: basic(1) ts(3) len(3) type(1) msid(4) ext(0) payload(2); basic(2) ts(3) ext(4) payload(3), scaled
W1 == <<1, 2, 2, 1, 2, 0, 2, 2, 2, 0, 0, 0, 2, 3>>

VARIABLES field,    \* index of the field the parser is waiting for
          buf,      \* units buffered and not yet consumed
          fed
vars == <<field, buf, fed>>

RECURSIVE Run(_, _)
Run(f, b) == IF f > Len(Widths) THEN <<f, b>>
             ELSE IF b >= Widths[f] THEN Run(f + 1, b - Widths[f])
             ELSE IF Eager THEN <<f, 0>>          \* consumes the partial field and loses it
             ELSE <<f, b>>

Init == field = 1 /\ buf = 0 /\ fed = 0

Feed(k) == /\ fed + k <= Total
           /\ LET r == Run(field, buf + k) IN
              /\ field' = r[1] /\ buf' = r[2] /\ fed' = fed + k
Next == \E k \in 1 .. Total : Feed(k)
Spec == Init /\ [][Next]_vars

PartitionIndependent == <<field, buf>> = Run(1, fed)
=============================================================================
