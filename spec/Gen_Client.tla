----------------------------- MODULE Gen_Client -----------------------------
(* S2 - behaviour generation from the client session model (see Gen_Server). *)
EXTENDS MC_Client, Json

VARIABLE last
gvars == <<vars, last>>
GInit == Init /\ last = [m |-> "none"]
GNext == bad = "" /\ \E i \in Inputs : Step(i) /\ last' = i
GSpec == GInit /\ [][GNext]_gvars
GView == <<st, bad>>
Dump == PrintT("EDGE " \o ToJson([s |-> st, i |-> last', t |-> st']))
=============================================================================
