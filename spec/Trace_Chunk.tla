---------------------------- MODULE Trace_Chunk ----------------------------
(***************************************************************************)
(* Trace validation of the chunk layer with the REAL constants             *)
(* (Base = 65536, Thr = 0xFFFFFF).                                         *)
(*                                                                         *)
(* The log (ndjson, constant Rec) is a sequence of runs:                   *)
(*   Reset(mode, minimal, cs, c1, next)                                    *)
(*   wire events, in stream order:                                         *)
(*     Ser   one call of the library's serializer: the message it was given*)
(*           (ty, msid, ts, len, data, flags) and the packet it returned   *)
(*     Msg   an intended message of a foreign (harness-encoded) stream     *)
(*     Chunk one chunk written by the harness' field-by-field encoder      *)
(*   Feed    one delivery of n further stream bytes to the library's       *)
(*           deserializer and the messages it returned                     *)
(*   End                                                                   *)
(*                                                                         *)
(* RECEIVER PHASE (wire events).  The bytes are parsed by ChunkWire and go *)
(* through the reference receiver ChunkProto!Rx, one TLC step per chunk.   *)
(* Each decoded header and each payload slice is compared on the spot with *)
(* the message the bytes were produced for (C07: the library's output is a *)
(* conformant stream denoting exactly the intended messages; C06/C16: the  *)
(* harness' encoding denotes what the harness thinks it denotes - if not,  *)
(* that is a TOOL verdict, never a violation).  In mode "all" every packet *)
(* marked droppable is nondeterministically kept or skipped, so TLC        *)
(* explores ALL subsets of dropped packets (C08).                          *)
(*                                                                         *)
(* FEED PHASE.  The stream offset at which each message completes is known *)
(* from the receiver phase; after a Feed that brings the total to `fed`    *)
(* the library must have returned exactly the messages completing at or    *)
(* before `fed`, in order, equal by value (C01, C06, C16, and - because    *)
(* the same stream is fed under several partitions - C15).                 *)
(*                                                                         *)
(* A failed check prints a VERDICT line and abandons the run (continuing   *)
(* with the next Reset), so one log yields every finding it contains.      *)
(***************************************************************************)
EXTENDS ChunkWire, Json, IOUtils

CONSTANTS AllowDrops,   \* explore every subset of dropped droppable packets (C08)
          CheckWire     \* parse the wire events with the reference receiver (FALSE: the pure
                        \* self-consistency oracle of C01, which needs no parsing at all)

ThrReal == <<255, 65535>>

Rec == ndJsonDeserialize(IOEnv.TRACE)
NRec == Len(Rec)

IsWire(i) == Rec[i].ev \in {"Ser", "Chunk"}
Idx == [i \in 1 .. NRec |-> i]
\* lines at which a message of the (non-omitted) stream completes, in stream order
Comp == SelectSeq(Idx, LAMBDA i : IsWire(i) /\ Rec[i].done /\ ~Rec[i].omit)
NComp == Len(Comp)

VARIABLES l,        \* line being processed
          cur,      \* cursor into Rec[l].bytes
          rx,       \* reference receiver state
          pm,       \* csid -> line of the intended message in progress on it
          pdone,    \* number of messages completed inside the current event
          woff,     \* stream bytes so far (kept events)
          ncomp,    \* completions so far in this file (mode "fixed")
          fed, deliv,
          mode, minimal, c1, nxt, fin,
          lostSeen, \* "" or the call that serialized a packet and never handed it out (first such call of this run)
          tx        \* the library serializer's header memory as the transcribed policy (LibCsid / LibFmt) predicts it

vars == <<l, cur, rx, pm, pdone, woff, ncomp, fed, deliv, mode, minimal, c1, nxt, fin, lostSeen, tx>>

Ev == Rec[l]

Init == /\ l = 1 /\ cur = Start /\ rx = RxInit(128) /\ pm = NoFn /\ pdone = 0 /\ woff = 0
        /\ ncomp = 0 /\ fed = 0 /\ deliv = 0 /\ mode = "fixed" /\ minimal = TRUE /\ c1 = 0
        /\ nxt = NRec + 1 /\ fin = FALSE /\ lostSeen = "" /\ tx = NoFn

\* ---- STRICT / drift diagnostics: is the library still following the compression policy that MC_Chunk's
\* "lib" configuration model-checks?  (class DRIFT: reported as spec_drift, never a violation)
SerMsg == [ty |-> Ev.ty, msid |-> Ev.msid, ts |-> Ev.ts, len |-> Ev.len]
PolicyCsid == LibCsid(Ev.ty)
PolicyFmt == LibFmt(tx, SerMsg, PolicyCsid, Ev.fu)
TxAfter == IF IsWire(l) /\ Ev.ev = "Ser" /\ Ev.res = "ok" /\ Ev.len <= 16777215
           THEN Upd(tx, PolicyCsid, TxHdr(tx, SerMsg, PolicyCsid, PolicyFmt, Ev.cd)) ELSE tx

\* abandon the run with a verdict
Fail(class, why) ==
    /\ PrintT("@@VERDICT|" \o class \o "|" \o why
                \o (IF lostSeen # "" THEN " [after a packet serialized in a failed " \o lostSeen \o " call was discarded]" ELSE "")
                \o "|" \o ToString(l))
    /\ l' = nxt /\ cur' = Start /\ pdone' = 0
    /\ UNCHANGED <<rx, pm, woff, ncomp, fed, deliv, mode, minimal, c1, nxt, fin, lostSeen, tx>>

Skip == /\ l' = l + 1 /\ cur' = Start /\ pdone' = 0
        /\ lostSeen' = (IF lostSeen # "" THEN lostSeen
                        ELSE IF IsWire(l) /\ Ev.omit /\ "lost" \in DOMAIN Ev THEN Ev.lost ELSE "")
        /\ tx' = TxAfter
        /\ UNCHANGED <<rx, pm, woff, ncomp, fed, deliv, mode, minimal, c1, nxt, fin>>

DoReset ==
    /\ l' = l + 1 /\ cur' = Start /\ pdone' = 0
    /\ rx' = RxInit(Ev.cs) /\ pm' = NoFn /\ woff' = 0 /\ fed' = 0
    /\ mode' = Ev.mode /\ minimal' = Ev.minimal /\ c1' = Ev.c1 /\ nxt' = Ev.next
    /\ ncomp' = IF Ev.mode = "fixed" THEN Ev.c0 ELSE ncomp
    /\ deliv' = IF Ev.mode = "fixed" THEN Ev.c0 ELSE deliv
    /\ lostSeen' = "" /\ tx' = NoFn
    /\ UNCHANGED fin

MaxLen == 16777215

HdrDiff(h, m) ==
    IF h.ty # m.ty THEN "type id"
    ELSE IF h.msid # m.msid THEN "message stream id"
    ELSE IF h.ts # m.ts THEN "timestamp"
    ELSE IF h.len # m.len THEN "length"
    ELSE ""

\* the class of a wire-level mismatch: the library's serializer, or the harness' own encoder
WClass == IF Ev.ev = "Ser" THEN "SER" ELSE "TOOL"

FinishEvent ==
    LET B == Ev.bytes IN
    IF Ev.ev = "Ser" /\ pdone # 1
    THEN Fail("SER", IF BLen(B) = 0 THEN "accepted message yields an empty packet"
                     ELSE "packet does not carry exactly its one message")
    ELSE IF Ev.ev = "Chunk" /\ (pdone = 1) # Ev.done
    THEN Fail("TOOL", "harness intent (done flag) disagrees with the reference receiver")
    ELSE IF mode = "fixed" /\ Ev.end # woff + BLen(B)
    THEN Fail("TOOL", "logged end offset disagrees with the packet lengths")
    ELSE /\ l' = l + 1 /\ cur' = Start /\ pdone' = 0
         /\ woff' = woff + BLen(B)
         /\ ncomp' = IF mode = "fixed" THEN ncomp + pdone ELSE ncomp
         /\ tx' = TxAfter
         /\ UNCHANGED <<rx, pm, fed, deliv, mode, minimal, c1, nxt, fin, lostSeen>>

OneChunk ==
    LET B == Ev.bytes
        p == ParseChunk(B, cur, rx, minimal)
    IN
    IF p.res = "more" THEN Fail(WClass, "packet ends inside a chunk")
    ELSE IF p.res = "illegal" THEN Fail(WClass, p.why)
    ELSE
    LET ch == p.ch
        r  == Rx(rx, ch)
    IN
    IF r.err # "ok" THEN Fail(WClass, r.err)
    ELSE
    LET c   == ch.csid
        ml  == IF r.first THEN Ev.ml ELSE pm[c]
        m   == Rec[ml]
        got == IF r.first THEN 0 ELSE rx.part[c]
        hd  == HdrDiff(r.hdr, m)
        fin1 == r.out # <<>>
    IN
    IF ~r.first /\ Ev.ml # ml THEN Fail(WClass, "chunk continues a different message than intended")
    ELSE IF Ev.ev = "Ser" /\ pdone > 0 THEN Fail("SER", "packet carries more than one message")
    ELSE IF hd # "" THEN Fail(WClass, "decoded header differs from the intended message: " \o hd)
    ELSE IF got + ch.n > BLen(m.data) THEN Fail(WClass, "chunk carries more payload than the message has")
    ELSE IF ~SliceEq(B, p.pay, m.data, CursorAt(m.data, got), ch.n)
         THEN Fail(WClass, "payload bytes differ from the intended message")
    ELSE IF fin1 /\ m.ty = 1 /\ (m.len < 4 \/ ByteAt(m.data, Start) >= 128)
         THEN Fail(WClass, "malformed chunk size announcement")
    ELSE
    LET sz == IF fin1 /\ m.ty = 1
              THEN LET b == Take(m.data, Start, 4) IN ((b[1] * 256 + b[2]) * 256 + b[3]) * 256 + b[4]
              ELSE rx.cs
    IN
    IF sz = 0 THEN Fail(WClass, "chunk size 0 announced")
    ELSE /\ IF Ev.ev = "Ser" /\ r.first /\ Ev.api # "sess-unknown" /\ (ch.csid # PolicyCsid \/ ch.fmt # PolicyFmt)
            THEN PrintT("@@VERDICT|DRIFT|library chose csid/format " \o ToString(<<ch.csid, ch.fmt>>) \o " where the transcribed policy predicts "
                        \o ToString(<<PolicyCsid, PolicyFmt>>) \o "|" \o ToString(l))
            ELSE TRUE
         /\ rx' = [r.st EXCEPT !.cs = sz]
         /\ pm' = IF fin1 THEN Del(pm, c) ELSE Upd(pm, c, ml)
         /\ cur' = p.after
         /\ pdone' = IF fin1 THEN pdone + 1 ELSE pdone
         /\ UNCHANGED <<l, woff, ncomp, fed, deliv, mode, minimal, c1, nxt, fin, lostSeen, tx>>

Process ==
    IF Ev.ev = "Ser" /\ Ev.res # "ok"
    THEN \* a refusal: legal only for what the protocol cannot express
         IF BLen(Ev.bytes) # 0 THEN Fail("SER", "refused message returned bytes")
         ELSE IF Ev.len <= MaxLen /\ ~Ev.badsize THEN Fail("SER", "serializer refused a legal message: " \o Ev.res)
         ELSE Skip
    ELSE IF Ev.ev = "Ser" /\ (Ev.len > MaxLen \/ Ev.badsize)
    THEN Fail("SER", "serializer accepted a message the protocol cannot express")
    ELSE IF Ev.ev = "Ser" /\ Ev.drop # Ev.cd
    THEN Fail("SER", "droppable mark differs from what the caller asked for")
    ELSE IF ~CheckWire THEN
         \* no parsing: trust nothing but the intent; only "every accepted message yields a
         \* non-empty packet" is checked on the wire side
         IF Ev.ev = "Ser" /\ BLen(Ev.bytes) = 0 THEN Fail("SER", "accepted message yields an empty packet")
         ELSE /\ l' = l + 1 /\ cur' = Start /\ pdone' = 0
              /\ woff' = woff + BLen(Ev.bytes)
              /\ ncomp' = IF Ev.done THEN ncomp + 1 ELSE ncomp
              /\ tx' = TxAfter
              /\ UNCHANGED <<rx, pm, fed, deliv, mode, minimal, c1, nxt, fin, lostSeen>>
    ELSE IF cur[3] = BLen(Ev.bytes) THEN FinishEvent
    ELSE OneChunk

DoWire ==
    IF Ev.omit THEN Skip
    ELSE IF AllowDrops /\ mode = "all" /\ Ev.ev = "Ser" /\ Ev.drop /\ cur = Start /\ Ev.res = "ok"
         THEN Skip \/ Process
         ELSE Process

MsgDiff(o, m) ==
    IF o.ty # m.ty THEN "type id"
    ELSE IF o.msid # m.msid THEN "message stream id"
    ELSE IF o.ts # m.ts THEN "timestamp"
    ELSE IF o.len # m.len THEN "length"
    ELSE IF ~BytesEq(o.data, m.data) THEN "payload"
    ELSE ""

DoFeed ==
    LET f2  == fed + Ev.n
        out == Ev.out
        k   == Len(out)
        \* first output that is wrong, 0 if none
        bad == LET S == {i \in 1 .. k :
                           \/ deliv + i > c1
                           \/ Rec[Comp[deliv + i]].end > f2
                           \/ MsgDiff(out[i], Rec[Rec[Comp[deliv + i]].ml]) # ""}
               IN IF S = {} THEN 0 ELSE CHOOSE i \in S : \A j \in S : i <= j
    IN
    IF Ev.res # "ok" THEN Fail("DES", "deserializer failed on a conformant stream: " \o Ev.res)
    ELSE IF bad # 0 THEN
        IF deliv + bad > c1 THEN Fail("DES", "deserializer returned a message that was never sent")
        ELSE IF Rec[Comp[deliv + bad]].end > f2 THEN Fail("DES", "deserializer returned a message before its last byte arrived")
        ELSE Fail("DES", "returned message differs from the sent one: "
                           \o MsgDiff(out[bad], Rec[Rec[Comp[deliv + bad]].ml]))
    ELSE IF deliv + k < c1 /\ Rec[Comp[deliv + k + 1]].end <= f2
         THEN Fail("DES", "message not returned by the call that delivered its last byte")
    ELSE /\ fed' = f2 /\ deliv' = deliv + k /\ l' = l + 1
         /\ UNCHANGED <<cur, rx, pm, pdone, woff, ncomp, mode, minimal, c1, nxt, fin, lostSeen, tx>>

DoEnd ==
    IF mode = "fixed" /\ ncomp # c1 THEN Fail("TOOL", "logged completion count disagrees with the reference receiver")
    ELSE IF mode = "fixed" /\ Ev.fedall /\ fed # woff THEN Fail("TOOL", "not every stream byte was fed")
    ELSE IF mode = "fixed" /\ Ev.fedall /\ deliv # c1 THEN Fail("DES", "messages missing at end of stream")
    ELSE Skip

Step ==
    /\ l <= NRec
    /\ CASE Ev.ev = "Reset" -> DoReset
         [] Ev.ev \in {"Ser", "Chunk"} -> DoWire
         [] Ev.ev = "Msg" -> Skip
         [] Ev.ev = "Feed" -> DoFeed
         [] Ev.ev = "End" -> DoEnd

Finish == /\ l = NRec + 1 /\ ~fin /\ fin' = TRUE /\ UNCHANGED <<lostSeen, tx>>
          /\ PrintT("@@ACCEPT|" \o ToString(NRec) \o "|" \o ToString(NComp))
          /\ UNCHANGED <<l, cur, rx, pm, pdone, woff, ncomp, fed, deliv, mode, minimal, c1, nxt>>

Next == Step \/ Finish
Spec == Init /\ [][Next]_vars
=============================================================================
