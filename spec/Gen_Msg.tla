------------------------------- MODULE Gen_Msg -------------------------------
(***************************************************************************)
(* Stage S2 for RTMP messages (C13): TLC enumerates a universe of          *)
(* well-formed messages over boundary field values (a superset of MC_Msg's *)
(* universe), checks the reference layouts on each (Sound, Aliases) and    *)
(* prints, for each, the message, its type id and its reference BODY as    *)
(* bytes.  The harness hands every body to the real to_rtmp_message (under *)
(* the message's own type id, and under the AMF3 aliases 15 / 17 for data  *)
(* and command bodies), converts what came back with the real              *)
(* from_rtmp_message, and Trace_Msg judges both events (classes conf and   *)
(* ToPayload) against the printed message.                                 *)
(***************************************************************************)
EXTENDS MC_Msg, Json

ObjA == [t |-> "o", p |-> << << <<[l |-> <<97>>]>>, NumA>>, << <<[l |-> <<98, 99>>]>>, StrA>> >>]
ArrA == [t |-> "a", e |-> <<NumA, [t |-> "z"], StrA>>]
BoolA == [t |-> "b", v |-> TRUE]
Vals2 == Vals \cup {<<ObjA>>, <<ArrA>>, <<StrA, ObjA, ArrA>>, <<[t |-> "z"], [t |-> "u"], BoolA>>,
                   <<[t |-> "o", p |-> << << <<[l |-> <<120>>]>>, ObjA>> >>]>>, <<[t |-> "a", e |-> <<ArrA, ObjA>>]>>}
Words2 == WordsB \cup {<<0, 255>>, <<0, 256>>, <<1, 0>>, <<255, 65535>>, <<256, 0>>, <<4660, 22136>>}
Names2 == {<<>>, <<[l |-> <<112>>]>>, <<[l |-> <<95, 114, 101, 115, 117, 108, 116>>]>>, <<[l |-> <<195, 169>>]>>}
Txns2 == {<<63, 240, 0, 0, 0, 0, 0, 0>>, <<0, 0, 0, 0, 0, 0, 0, 0>>, <<192, 4, 0, 0, 0, 0, 0, 0>>, <<127, 248, 0, 0, 0, 0, 0, 1>>}

GenUniverse ==
       Universe
  \cup {[k |-> c, v |-> x] : c \in {"SetChunkSize", "Abort", "Ack", "WinAck"}, x \in Words2}
  \cup {[k |-> "SetPeerBw", v |-> x, lt |-> t] : x \in Words2, t \in {"Hard", "Soft", "Dynamic"}}
  \cup {[k |-> "UserControl", et |-> e, sid |-> IF e \in StreamEvents \cup {"SetBufferLength"} THEN <<x>> ELSE <<>>,
         buf |-> IF e = "SetBufferLength" THEN <<y>> ELSE <<>>, ts |-> IF e \in {"PingRequest", "PingResponse"} THEN <<x>> ELSE <<>>] :
            e \in Evs, x \in Words2, y \in {<<0, 1>>, <<4660, 22136>>}}
  \cup {[k |-> c, data |-> d] : c \in {"Audio", "Video"}, d \in {<<[l |-> <<0>>]>>, <<[l |-> <<7, 7, 7, 7, 7, 7, 7, 7, 7>>]>>, <<[l |-> <<1, 2>>], [l |-> <<0, 0, 0, 0, 0>>], [l |-> <<9>>]>>}}
  \cup {[k |-> "Data", vals |-> vs] : vs \in Vals2}
  \cup {[k |-> "Command", name |-> n, txn |-> x, obj |-> o, args |-> vs] :
            n \in Names2, x \in Txns2, o \in {[t |-> "z"], ObjA}, vs \in Vals2}
  \cup {[k |-> "Unknown", ty |-> t, data |-> d] : t \in {0, 7, 10, 14, 16, 19, 21, 22, 127, 128, 255}, d \in {<<>>, <<[l |-> <<9>>]>>, <<[l |-> <<1, 1, 1, 1, 1, 1, 1, 1, 1, 1, 1, 1>>]>>}}

GenInit == m \in {x \in GenUniverse : WellFormed(x)}
GenSpec == GenInit /\ [][Next]_m

Flat(B) == Take(B, Start, BLen(B))
Emit == PrintT("@@MSG|" \o ToJson([intent |-> m, ty |-> TypeOf(m), body |-> Flat(Body(m))]))
=============================================================================
