SPECIFICATION Spec
CONSTANTS
  A = 4
  D = 9
  MaxW = 12
INVARIANTS Conservation AtMostOneInFlight NotCut
PROPERTIES Quiet Storm
CONSTRAINT Bound
CHECK_DEADLOCK FALSE
