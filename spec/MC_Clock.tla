------------------------------ MODULE MC_Clock ------------------------------
(***************************************************************************)
(* TLC, exhaustive for small Base: the limb arithmetic of U32 (used by     *)
(* every trace specification) agrees with flat arithmetic modulo Base^2,   *)
(* and satisfies the clock laws of C20.                                    *)
(***************************************************************************)
EXTENDS U32, Integers

VARIABLES x, y
Init == x \in Word /\ y \in Word
Next == UNCHANGED <<x, y>>
Spec == Init /\ [][Next]_<<x, y>>

ToNat(w) == w[1] * Base + w[2]
MM == Base * Base

Refines == /\ ToNat(Add(x, y)) = (ToNat(x) + ToNat(y)) % MM
           /\ ToNat(Sub(x, y)) = (ToNat(x) - ToNat(y) + MM) % MM
           /\ Lt(x, y) <=> ToNat(x) < ToNat(y)
           /\ FromNat(ToNat(x)) = x
Laws == /\ Sub(Add(x, y), y) = x /\ Add(Sub(x, y), y) = x
        /\ (Later(x, y) => ~Later(y, x))
        /\ (x # y /\ Sub(x, y) # Half => (Later(x, y) \/ Later(y, x)))
        /\ (ToNat(y) >= 1 /\ ToNat(y) < MM \div 2 => Later(Add(x, y), x))
=============================================================================
