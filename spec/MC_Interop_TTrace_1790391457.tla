---- MODULE MC_Interop_TTrace_1790391457 ----
EXTENDS Sequences, TLCExt, Toolbox, MC_Interop, Naturals, TLC

_expression ==
    LET MC_Interop_TEExpression == INSTANCE MC_Interop_TEExpression
    IN MC_Interop_TEExpression!expression
----

_trace ==
    LET MC_Interop_TETrace == INSTANCE MC_Interop_TETrace
    IN MC_Interop_TETrace!trace
----

_inv ==
    ~(
        TLCGet("level") = Len(_TETrace)
        /\
        phase = ("connected")
        /\
        recv = (0)
        /\
        bad = ("client call failed: request_publishing")
        /\
        cst = ([itxn |-> {1, 2}, state |-> "PublishRequested", txns |-> <<>>, active |-> <<1>>])
        /\
        sst = ([app |-> <<<<97>>>>, istream |-> {1}, ireq |-> {0}, conn |-> "connected", reqs |-> <<>>, streams |-> <<[key |-> <<>>, st |-> "created"]>>])
        /\
        c2s = (<<[m |-> "publish", txn |-> 0, msid |-> 1, args |-> "ok", key |-> <<7>>, mode |-> "live"]>>)
        /\
        s2c = (<<>>)
        /\
        psid = (0)
        /\
        fin = (FALSE)
        /\
        toAccept = (<<>>)
        /\
        sent = (0)
    )
----

_init ==
    /\ phase = _TETrace[1].phase
    /\ bad = _TETrace[1].bad
    /\ cst = _TETrace[1].cst
    /\ recv = _TETrace[1].recv
    /\ psid = _TETrace[1].psid
    /\ toAccept = _TETrace[1].toAccept
    /\ sst = _TETrace[1].sst
    /\ sent = _TETrace[1].sent
    /\ fin = _TETrace[1].fin
    /\ c2s = _TETrace[1].c2s
    /\ s2c = _TETrace[1].s2c
----

_next ==
    /\ \E i,j \in DOMAIN _TETrace:
        /\ \/ /\ j = i + 1
              /\ i = TLCGet("level")
        /\ phase  = _TETrace[i].phase
        /\ phase' = _TETrace[j].phase
        /\ bad  = _TETrace[i].bad
        /\ bad' = _TETrace[j].bad
        /\ cst  = _TETrace[i].cst
        /\ cst' = _TETrace[j].cst
        /\ recv  = _TETrace[i].recv
        /\ recv' = _TETrace[j].recv
        /\ psid  = _TETrace[i].psid
        /\ psid' = _TETrace[j].psid
        /\ toAccept  = _TETrace[i].toAccept
        /\ toAccept' = _TETrace[j].toAccept
        /\ sst  = _TETrace[i].sst
        /\ sst' = _TETrace[j].sst
        /\ sent  = _TETrace[i].sent
        /\ sent' = _TETrace[j].sent
        /\ fin  = _TETrace[i].fin
        /\ fin' = _TETrace[j].fin
        /\ c2s  = _TETrace[i].c2s
        /\ c2s' = _TETrace[j].c2s
        /\ s2c  = _TETrace[i].s2c
        /\ s2c' = _TETrace[j].s2c

\* Uncomment the ASSUME below to write the states of the error trace
\* to the given file in Json format. Note that you can pass any tuple
\* to `JsonSerialize`. For example, a sub-sequence of _TETrace.
    \* ASSUME
    \*     LET J == INSTANCE Json
    \*         IN J!JsonSerialize("MC_Interop_TTrace_1790391457.json", _TETrace)

=============================================================================

 Note that you can extract this module `MC_Interop_TEExpression`
  to a dedicated file to reuse `expression` (the module in the 
  dedicated `MC_Interop_TEExpression.tla` file takes precedence 
  over the module `MC_Interop_TEExpression` below).

---- MODULE MC_Interop_TEExpression ----
EXTENDS Sequences, TLCExt, Toolbox, MC_Interop, Naturals, TLC

expression == 
    [
        \* To hide variables of the `MC_Interop` spec from the error trace,
        \* remove the variables below.  The trace will be written in the order
        \* of the fields of this record.
        phase |-> phase
        ,bad |-> bad
        ,cst |-> cst
        ,recv |-> recv
        ,psid |-> psid
        ,toAccept |-> toAccept
        ,sst |-> sst
        ,sent |-> sent
        ,fin |-> fin
        ,c2s |-> c2s
        ,s2c |-> s2c
        
        \* Put additional constant-, state-, and action-level expressions here:
        \* ,_stateNumber |-> _TEPosition
        \* ,_phaseUnchanged |-> phase = phase'
        
        \* Format the `phase` variable as Json value.
        \* ,_phaseJson |->
        \*     LET J == INSTANCE Json
        \*     IN J!ToJson(phase)
        
        \* Lastly, you may build expressions over arbitrary sets of states by
        \* leveraging the _TETrace operator.  For example, this is how to
        \* count the number of times a spec variable changed up to the current
        \* state in the trace.
        \* ,_phaseModCount |->
        \*     LET F[s \in DOMAIN _TETrace] ==
        \*         IF s = 1 THEN 0
        \*         ELSE IF _TETrace[s].phase # _TETrace[s-1].phase
        \*             THEN 1 + F[s-1] ELSE F[s-1]
        \*     IN F[_TEPosition - 1]
    ]

=============================================================================



Parsing and semantic processing can take forever if the trace below is long.
 In this case, it is advised to uncomment the module below to deserialize the
 trace from a generated binary file.

\*
\*---- MODULE MC_Interop_TETrace ----
\*EXTENDS IOUtils, MC_Interop, TLC
\*
\*trace == IODeserialize("MC_Interop_TTrace_1790391457.bin", TRUE)
\*
\*=============================================================================
\*

---- MODULE MC_Interop_TETrace ----
EXTENDS MC_Interop, TLC

trace == 
    <<
    ([phase |-> "start",recv |-> 0,bad |-> "",cst |-> [itxn |-> {}, state |-> "Disconnected", txns |-> <<>>, active |-> <<>>],sst |-> [app |-> <<>>, istream |-> {}, ireq |-> {}, conn |-> "started", reqs |-> <<>>, streams |-> <<>>],c2s |-> <<>>,s2c |-> <<>>,psid |-> 0,fin |-> FALSE,toAccept |-> <<>>,sent |-> 0]),
    ([phase |-> "connecting",recv |-> 0,bad |-> "",cst |-> [itxn |-> {1}, state |-> "Disconnected", txns |-> <<[key |-> <<97, 47>>, k |-> "connect"]>>, active |-> <<>>],sst |-> [app |-> <<>>, istream |-> {}, ireq |-> {}, conn |-> "started", reqs |-> <<>>, streams |-> <<>>],c2s |-> <<[m |-> "connect", txn |-> 1, appkind |-> "ok", app |-> <<97, 47>>]>>,s2c |-> <<>>,psid |-> 0,fin |-> FALSE,toAccept |-> <<>>,sent |-> 0]),
    ([phase |-> "connecting",recv |-> 0,bad |-> "",cst |-> [itxn |-> {1}, state |-> "Disconnected", txns |-> <<[key |-> <<97, 47>>, k |-> "connect"]>>, active |-> <<>>],sst |-> [app |-> <<>>, istream |-> {}, ireq |-> {0}, conn |-> "started", reqs |-> (0 :> [txn |-> 1, app |-> <<97>>, k |-> "connect"]), streams |-> <<>>],c2s |-> <<>>,s2c |-> <<>>,psid |-> 0,fin |-> FALSE,toAccept |-> <<0>>,sent |-> 0]),
    ([phase |-> "connecting",recv |-> 0,bad |-> "",cst |-> [itxn |-> {1}, state |-> "Disconnected", txns |-> <<[key |-> <<97, 47>>, k |-> "connect"]>>, active |-> <<>>],sst |-> [app |-> <<<<97>>>>, istream |-> {}, ireq |-> {0}, conn |-> "connected", reqs |-> <<>>, streams |-> <<>>],c2s |-> <<>>,s2c |-> <<[m |-> "result", txn |-> 1, sid |-> 0, txnint |-> TRUE, hassid |-> FALSE]>>,psid |-> 0,fin |-> FALSE,toAccept |-> <<>>,sent |-> 0]),
    ([phase |-> "connected",recv |-> 0,bad |-> "",cst |-> [itxn |-> {1}, state |-> "Connected", txns |-> <<>>, active |-> <<>>],sst |-> [app |-> <<<<97>>>>, istream |-> {}, ireq |-> {0}, conn |-> "connected", reqs |-> <<>>, streams |-> <<>>],c2s |-> <<[m |-> "winack"], [m |-> "setcs"]>>,s2c |-> <<>>,psid |-> 0,fin |-> FALSE,toAccept |-> <<>>,sent |-> 0]),
    ([phase |-> "connected",recv |-> 0,bad |-> "",cst |-> [itxn |-> {1, 2}, state |-> "Connected", txns |-> (2 :> [key |-> <<7>>, ptype |-> "live", k |-> "publish"]), active |-> <<>>],sst |-> [app |-> <<<<97>>>>, istream |-> {}, ireq |-> {0}, conn |-> "connected", reqs |-> <<>>, streams |-> <<>>],c2s |-> <<[m |-> "winack"], [m |-> "setcs"], [m |-> "createStream", txn |-> 2]>>,s2c |-> <<>>,psid |-> 0,fin |-> FALSE,toAccept |-> <<>>,sent |-> 0]),
    ([phase |-> "connected",recv |-> 0,bad |-> "",cst |-> [itxn |-> {1, 2}, state |-> "Connected", txns |-> (2 :> [key |-> <<7>>, ptype |-> "live", k |-> "publish"]), active |-> <<>>],sst |-> [app |-> <<<<97>>>>, istream |-> {}, ireq |-> {0}, conn |-> "connected", reqs |-> <<>>, streams |-> <<>>],c2s |-> <<[m |-> "setcs"], [m |-> "createStream", txn |-> 2]>>,s2c |-> <<>>,psid |-> 0,fin |-> FALSE,toAccept |-> <<>>,sent |-> 0]),
    ([phase |-> "connected",recv |-> 0,bad |-> "",cst |-> [itxn |-> {1, 2}, state |-> "Connected", txns |-> (2 :> [key |-> <<7>>, ptype |-> "live", k |-> "publish"]), active |-> <<>>],sst |-> [app |-> <<<<97>>>>, istream |-> {}, ireq |-> {0}, conn |-> "connected", reqs |-> <<>>, streams |-> <<>>],c2s |-> <<[m |-> "createStream", txn |-> 2]>>,s2c |-> <<>>,psid |-> 0,fin |-> FALSE,toAccept |-> <<>>,sent |-> 0]),
    ([phase |-> "connected",recv |-> 0,bad |-> "",cst |-> [itxn |-> {1, 2}, state |-> "Connected", txns |-> (2 :> [key |-> <<7>>, ptype |-> "live", k |-> "publish"]), active |-> <<>>],sst |-> [app |-> <<<<97>>>>, istream |-> {1}, ireq |-> {0}, conn |-> "connected", reqs |-> <<>>, streams |-> <<[key |-> <<>>, st |-> "created"]>>],c2s |-> <<>>,s2c |-> <<[m |-> "result", txn |-> 2, sid |-> 1, txnint |-> TRUE, hassid |-> TRUE]>>,psid |-> 0,fin |-> FALSE,toAccept |-> <<>>,sent |-> 0]),
    ([phase |-> "connected",recv |-> 0,bad |-> "",cst |-> [itxn |-> {1, 2}, state |-> "PublishRequested", txns |-> <<>>, active |-> <<1>>],sst |-> [app |-> <<<<97>>>>, istream |-> {1}, ireq |-> {0}, conn |-> "connected", reqs |-> <<>>, streams |-> <<[key |-> <<>>, st |-> "created"]>>],c2s |-> <<[m |-> "publish", txn |-> 0, msid |-> 1, args |-> "ok", key |-> <<7>>, mode |-> "live"]>>,s2c |-> <<>>,psid |-> 0,fin |-> FALSE,toAccept |-> <<>>,sent |-> 0]),
    ([phase |-> "connected",recv |-> 0,bad |-> "client call failed: request_publishing",cst |-> [itxn |-> {1, 2}, state |-> "PublishRequested", txns |-> <<>>, active |-> <<1>>],sst |-> [app |-> <<<<97>>>>, istream |-> {1}, ireq |-> {0}, conn |-> "connected", reqs |-> <<>>, streams |-> <<[key |-> <<>>, st |-> "created"]>>],c2s |-> <<[m |-> "publish", txn |-> 0, msid |-> 1, args |-> "ok", key |-> <<7>>, mode |-> "live"]>>,s2c |-> <<>>,psid |-> 0,fin |-> FALSE,toAccept |-> <<>>,sent |-> 0])
    >>
----


=============================================================================

---- CONFIG MC_Interop_TTrace_1790391457 ----
CONSTANTS
    Scenario = "publish"
    N = 2
    Cap = 3

INVARIANT
    _inv

CHECK_DEADLOCK
    \* CHECK_DEADLOCK off because of PROPERTY or INVARIANT above.
    FALSE

INIT
    _init

NEXT
    _next

CONSTANT
    _TETrace <- _trace

ALIAS
    _expression
=============================================================================
\* Generated on Sat Sep 26 02:57:39 UTC 2026