----------------------------- MODULE AckWindow -----------------------------
(***************************************************************************)
(* Acknowledgement accounting of a session (property C17), as a pure step  *)
(* function over words (U32).  win = <<>> (no window announced yet) or     *)
(* <<W>>; pend = bytes received and not yet acknowledged.                  *)
(*   AckStep(win, pend, n): an input call delivering n bytes               *)
(*     - nothing is counted before a window is known                       *)
(*     - otherwise pend + n is compared with W: reaching it emits one      *)
(*       Acknowledgement carrying exactly pend + n and resets pend         *)
(*     - over: the count itself exceeds 32 bits; the window is then        *)
(*       certainly reached and an acknowledgement is due, but its 32-bit   *)
(*       field cannot carry the count: the reported value is not judged    *)
(***************************************************************************)
EXTENDS U32, Sequences

AckStep(win, pend, n) ==
    IF win = <<>> THEN [ack |-> <<>>, pend |-> pend, over |-> FALSE]
    ELSE LET p    == Add(pend, n)
             over == Lt(p, pend)      \* pend + n does not fit in 32 bits (only possible with a window close to 2^32)
         IN  IF over \/ Le(win[1], p) THEN [ack |-> <<p>>, pend |-> Zero, over |-> over]
             ELSE [ack |-> <<>>, pend |-> p, over |-> FALSE]
=============================================================================
