----------------------------- MODULE AckWindow -----------------------------
(***************************************************************************)
(* Acknowledgement accounting of a session (property C17), as a pure step  *)
(* function over words (U32).  win = <<>> (no window announced yet) or     *)
(* <<W>>; pend = bytes received and not yet acknowledged.                  *)
(*   AckStep(win, pend, n): an input call delivering n bytes               *)
(*     - nothing is counted before a window is known                       *)
(*     - otherwise pend + n is compared with W: reaching it emits one      *)
(*       Acknowledgement carrying exactly pend + n and resets pend         *)
(***************************************************************************)
EXTENDS U32, Sequences

AckStep(win, pend, n) ==
    IF win = <<>> THEN [ack |-> <<>>, pend |-> pend]
    ELSE LET p == Add(pend, n) IN
         IF Le(win[1], p) THEN [ack |-> <<p>>, pend |-> Zero]
         ELSE [ack |-> <<>>, pend |-> p]
=============================================================================
