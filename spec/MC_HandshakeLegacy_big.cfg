SPECIFICATION Spec
CONSTANTS
  P = 3
  T = 3
INVARIANTS NoError LibEmitsExactly NoEarlyCompletion LibAppExact PeerSeesEcho
PROPERTY Live
CHECK_DEADLOCK FALSE
