---------------------------- MODULE MC_AckStorm ----------------------------
(***************************************************************************)
(* Two sessions that acknowledge each other's bytes (AckWindow on both     *)
(* sides): when does the exchange fall silent after the last data packet?  *)
(* An Acknowledgement is itself a packet of A bytes and counts towards the *)
(* receiver's window.  TLC checks, for every pair of windows in 1 .. MaxW: *)
(*   - if at least one window is larger than A the exchange always falls   *)
(*     silent (Quiet), and no byte is acknowledged twice or lost           *)
(*     (Conservation, as in AckFlat);                                      *)
(*   - if both windows are at most A it NEVER does (Storm): every          *)
(*     acknowledgement is acknowledged in turn.                            *)
(* This is a property of the protocol, not of the library; the interop     *)
(* driver (C02) therefore does not wait for silence when both configured   *)
(* windows are tiny, and DESIGN.md records it.                             *)
(***************************************************************************)
EXTENDS Integers, Sequences

CONSTANTS A,      \* size of an acknowledgement packet
          D,      \* size of the one data packet that starts the exchange
          MaxW

Sides == {"a", "b"}
Other(s) == IF s = "a" THEN "b" ELSE "a"

VARIABLES W,       \* W[s]: the window s must honour (announced by the other side), fixed in the initial state
          pend,    \* bytes s received and has not acknowledged
          fl,      \* fl[s]: sizes of the packets in flight towards s
          rx, acked

vars == <<W, pend, fl, rx, acked>>

Init == /\ W \in [Sides -> 1 .. MaxW]
        /\ pend = [s \in Sides |-> 0] /\ rx = [s \in Sides |-> 0] /\ acked = [s \in Sides |-> 0]
        /\ fl = [a |-> <<D>>, b |-> <<>>]

Deliver(s) ==
    /\ fl[s] # <<>>
    /\ LET n == Head(fl[s])
           p == pend[s] + n
       IN  /\ rx' = [rx EXCEPT ![s] = @ + n]
           /\ IF p >= W[s]
              THEN /\ pend' = [pend EXCEPT ![s] = 0]
                   /\ acked' = [acked EXCEPT ![s] = @ + p]
                   /\ fl' = [fl EXCEPT ![s] = Tail(@), ![Other(s)] = Append(@, A)]
              ELSE /\ pend' = [pend EXCEPT ![s] = p]
                   /\ fl' = [fl EXCEPT ![s] = Tail(@)]
                   /\ UNCHANGED acked
    /\ UNCHANGED W

Next == \E s \in Sides : Deliver(s)
Spec == Init /\ [][Next]_vars /\ WF_vars(Next)

Silent == \A s \in Sides : fl[s] = <<>>
Stormy == W["a"] <= A /\ W["b"] <= A

Conservation == \A s \in Sides : acked[s] + pend[s] = rx[s] /\ pend[s] < W[s]
AtMostOneInFlight == Len(fl["a"]) + Len(fl["b"]) <= 1
Quiet == ~Stormy => <>[]Silent
Storm == Stormy => []~Silent

\* the bound below never cuts a behaviour that is not a storm (so Quiet is checked on complete behaviours)
NotCut == ~Stormy => rx["a"] + rx["b"] < 40 * (A + D)

\* keeps the state space finite (the counters of a storm grow for ever)
Bound == rx["a"] + rx["b"] <= 40 * (A + D)
=============================================================================
