--------------------------- MODULE Trace_Handshake ---------------------------
(***************************************************************************)
(* Trace validation of the real Handshake (C05 flow, C11 digests), P=1536. *)
(*                                                                         *)
(* Flow events (C05; verdict class HS):                                    *)
(*   HsNew(side)                      a fresh handshake object             *)
(*   Gen(side, len, first)            generate_outbound_p0_and_p1          *)
(*   Proc(side, n, inp, res, kind, rlen, rfirst, remaining)  process_bytes *)
(*   stage and counters are recomputed by Handshake!HsStep from n alone;   *)
(*   the logged kind / response length / handed-back bytes (BY VALUE: the  *)
(*   tail of the bytes fed in that call) must match.                       *)
(*                                                                         *)
(* Digest events (C11; verdict class DIG).  HMAC-SHA256 is UNINTERPRETED   *)
(* here: the harness logs facts about the primitive only (at which         *)
(* positions of a packet a brute-force scan finds a valid digest under     *)
(* each constant key; for which (key, digest) pairs the packet-2 signature *)
(* verifies).  Which offsets are legitimate, which key belongs to which    *)
(* role and signature-versus-echo are decided here:                        *)
(*   ClientOffset(p) = (p[8]+p[9]+p[10]+p[11]) mod 728 + 12                *)
(*   ServerOffset(p) = (p[772]+..+p[775]) mod 728 + 776                    *)
(*   packet 1 of a client is keyed with the Flash Player constant, of a    *)
(*   server with the Media Server constant; packet 2 is signed with        *)
(*   HMAC(own full key (constant + 32 byte suffix), peer digest)           *)
(***************************************************************************)
EXTENDS Handshake, Bytes, Json, IOUtils

Rec == ndJsonDeserialize(IOEnv.TRACE)
NRec == Len(Rec)

VARIABLES l, hs, fin
vars == <<l, hs, fin>>
Ev == Rec[l]
Init == l = 1 /\ hs = [A |-> HsInit, B |-> HsInit] /\ fin = FALSE
Say(class, why) == PrintT("@@VERDICT|" \o class \o "|" \o why \o "|" \o ToString(l))

Sum4(b) == b[1] + b[2] + b[3] + b[4]
ClientOffset(ob) == (Sum4(ob) % 728) + 12
ServerOffset(ob2) == (Sum4(ob2) % 728) + 776
P1Key(role) == IF role = "client" THEN "fp" ELSE "fms"        \* key of the packet-1 digest
P2Key(role) == IF role = "client" THEN "fpfull" ELSE "fmsfull" \* key of the packet-2 signature
PeerRole(role) == IF role = "client" THEN "server" ELSE "client"



DoNew == hs' = [hs EXCEPT ![Ev.side] = HsInit]

DoGen ==
    LET r == HsGen(hs[Ev.side]) IN
    /\ IF hs[Ev.side].stage # "NeedToSend" THEN TRUE   \* calling it twice is outside the property
       ELSE IF Ev.res # "ok" THEN Say("HS", "generate failed: " \o Ev.res)
       ELSE IF Ev.len # r.out THEN Say("HS", "packet 0+1 is not 1 + 1536 bytes")
       ELSE IF Ev.first # 3 THEN Say("HS", "version byte is not 3")
       ELSE TRUE
    /\ hs' = [hs EXCEPT ![Ev.side] = r.st]

DoProc ==
    LET st == hs[Ev.side]
        r == HsStep(st, Ev.n)
    IN
    /\ IF r.err THEN TRUE                              \* feeding a completed handshake: outside the property
       ELSE IF Ev.res # "ok" THEN Say("HS", "process_bytes failed on a valid exchange: " \o Ev.res)
       ELSE IF (Ev.kind = "Completed") # r.done THEN
            Say("HS", IF r.done THEN "completion not reported although the peer's 3073 bytes have arrived"
                      ELSE "completion reported before the peer's 3073 bytes arrived")
       ELSE IF Ev.rlen # r.out THEN Say("HS", "response length differs: the side must emit exactly 1 + 1536 + 1536 bytes in total")
       ELSE IF r.out > 0 /\ st.stage = "NeedToSend" /\ Ev.rfirst # 3 THEN Say("HS", "version byte is not 3")
       ELSE IF BLen(Ev.remaining) # r.left THEN Say("HS", "number of bytes handed back differs from what followed the handshake")
       ELSE IF r.left > 0 /\ ~SliceEq(Ev.inp, CursorAt(Ev.inp, Ev.n - r.left), Ev.remaining, Start, r.left)
            THEN Say("HS", "bytes handed back are not the bytes that followed the handshake")
       ELSE TRUE
    /\ hs' = [hs EXCEPT ![Ev.side] = r.st]

\* ---- digests
\* P1Facts: role of the generating side, ob/ob2 offset bytes, valid[key] = positions with a valid digest
DoP1 ==
    LET good == Range(Ev.valid[P1Key(Ev.role)])
        co == ClientOffset(Ev.ob)
        so == ServerOffset(Ev.ob2)
    IN IF Ev.lib THEN
           IF ~(co \in good \/ so \in good) THEN Say("DIG", "generated packet 1 has no valid digest keyed for its role at a position peers probe") ELSE TRUE
       ELSE \* crafted by the harness as input: must itself be legitimate, else the case says nothing
           IF ~(Ev.dpos \in {co, so} /\ Ev.dpos \in good) THEN Say("TOOL", "crafted packet 1 is not a legitimate digest-bearing packet") ELSE TRUE

\* P2Facts: role of the side that generated packet 2; peer packet 1 had a digest at dpos (or none: dpos = -1)
\* sig = set of <<key, position of the digest used>> for which the signature verifies; echo = p2 equals peer p1
DoP2 ==
    IF Ev.dpos = -1 THEN
        IF ~Ev.echo THEN Say("DIG", "packet 2 answering a digest-less packet 1 is not an exact echo") ELSE TRUE
    ELSE IF ~(\E k \in 1 .. Len(Ev.sig) : Ev.sig[k][1] = P2Key(Ev.role) /\ Ev.sig[k][2] = Ev.dpos)
         THEN Say("DIG", "packet 2 does not end with the signature derived from the peer's digest and the role's key")
    ELSE TRUE

Step == /\ l <= NRec
        /\ CASE Ev.ev = "HsNew" -> DoNew
             [] Ev.ev = "Gen" -> DoGen
             [] Ev.ev = "Proc" -> DoProc
             [] Ev.ev = "P1Facts" -> DoP1 /\ UNCHANGED hs
             [] Ev.ev = "P2Facts" -> DoP2 /\ UNCHANGED hs
             [] Ev.ev = "AppData" ->
                    /\ IF ~Ev.done THEN Say("HS", "handshake did not complete although every byte was delivered")
                       ELSE IF ~Ev.intact THEN Say("HS", "application bytes following the handshake did not arrive intact exactly once")
                       ELSE TRUE
                    /\ UNCHANGED hs
             [] OTHER -> UNCHANGED hs
        /\ l' = l + 1 /\ UNCHANGED fin
Finish == l = NRec + 1 /\ ~fin /\ fin' = TRUE /\ UNCHANGED <<l, hs>> /\ PrintT("@@ACCEPT|" \o ToString(NRec) \o "|0")
Next == Step \/ Finish
Spec == Init /\ [][Next]_vars
=============================================================================
