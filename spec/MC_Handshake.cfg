SPECIFICATION Spec
CONSTANTS
  P = 3
  T = 2
INVARIANTS NoError EmitExactly NoEarlyCompletion Conservation AppOnlyTrailing
PROPERTY Live
CHECK_DEADLOCK FALSE
