---------------------------- MODULE Trace_Interop ----------------------------
(***************************************************************************)
(* Trace validation of a real ClientSession and a real ServerSession wired *)
(* back to back (C02).  The byte streams are fragmented and interleaved by *)
(* the harness scheduler; this specification judges what the property      *)
(* talks about, at item level:                                             *)
(*   Start(scenario, app, key)   publish or play, requested app and key    *)
(*   Mark(what, ...)             connect accepted (client / server side),  *)
(*                               request accepted (client side), request   *)
(*                               surfaced (server side), finished event    *)
(*   Send(kind, ts, data|meta)   an item handed to the sending session     *)
(*   Recv(kind, ts, data|meta, app, key)   an item raised by the receiver  *)
(*   Err(where, res)             any call of either session failed         *)
(*   End(quiescent)                                                        *)
(* State: q = log lines of items sent and not yet received (FIFO).         *)
(*   - every Recv must be the OLDEST outstanding item, equal by value       *)
(*     (payload bytes, timestamp, every metadata field), tagged with the   *)
(*     requested application and key where the receiver tags (server side) *)
(*   - nothing may fail; at End everything sent has been received exactly  *)
(*     once, connect and the request completed on both sides, and stopping *)
(*     raised the matching finished event at the server                    *)
(***************************************************************************)
EXTENDS Bytes, TLC, Json, IOUtils

Rec == ndJsonDeserialize(IOEnv.TRACE)
NRec == Len(Rec)
VARIABLES l, q, sc, marks, dead, fin
vars == <<l, q, sc, marks, dead, fin>>
Ev == Rec[l]
Init == l = 1 /\ q = <<>> /\ sc = <<>> /\ marks = {} /\ dead = FALSE /\ fin = FALSE
Say(class, why) == PrintT("@@VERDICT|" \o class \o "|" \o why \o "|" \o ToString(l))

ItemEq(s, r) ==
    /\ s.kind = r.kind
    /\ IF s.kind = "meta" THEN s.meta = r.meta
       ELSE s.ts = r.ts /\ BytesEq(s.data, r.data)

Needed == {"client_connected", "server_connected", "request_surfaced", "request_accepted", "finished"}

Step ==
    /\ l <= NRec
    /\ CASE Ev.ev = "Start" ->
              /\ q' = <<>> /\ sc' = Ev /\ marks' = {} /\ dead' = FALSE
         [] Ev.ev = "Mark" ->
              /\ IF dead THEN TRUE
                 ELSE IF Ev.what \in {"server_connected", "request_surfaced", "finished"} /\ Ev.app # sc.app
                      THEN Say("IOP", "server side " \o Ev.what \o " carries a different application name than requested")
                 ELSE IF Ev.what \in {"request_surfaced", "finished"} /\ Ev.key # sc.key
                      THEN Say("IOP", "server side " \o Ev.what \o " carries a different stream key than requested")
                 ELSE IF Ev.what = "finished" /\ Ev.kind # sc.scenario THEN Say("IOP", "finished event does not match the activity")
                 ELSE IF Ev.what \in marks /\ Ev.what # "finished" THEN TRUE
                 ELSE IF Ev.what = "finished" /\ "finished" \in marks THEN Say("IOP", "more than one finished event")
                 ELSE TRUE
              /\ marks' = marks \cup {Ev.what} /\ UNCHANGED <<q, sc, dead>>
         [] Ev.ev = "Send" ->
              /\ IF ~dead /\ Ev.res # "ok" THEN Say("IOP", "sending session refused an item during the activity: " \o Ev.res) ELSE TRUE
              /\ q' = IF Ev.res = "ok" THEN Append(q, l) ELSE q
              /\ dead' = (dead \/ Ev.res # "ok") /\ UNCHANGED <<sc, marks>>
         [] Ev.ev = "Recv" ->
              LET bad == IF q = <<>> THEN "item raised that was never sent (or raised twice)"
                         ELSE IF ~ItemEq(Rec[q[1]], Ev) THEN "item raised out of order or with different payload/timestamp/metadata"
                         ELSE IF sc.scenario = "publish" /\ (Ev.app # sc.app \/ Ev.key # sc.key) THEN "item raised under a different application name or stream key"
                         ELSE ""
              IN /\ IF ~dead /\ bad # "" THEN Say("IOP", bad) ELSE TRUE
                 /\ q' = IF bad = "" THEN Tail(q) ELSE q
                 /\ dead' = (dead \/ bad # "") /\ UNCHANGED <<sc, marks>>
         [] Ev.ev = "Err" ->
              /\ IF ~dead THEN Say("IOP", "a session call failed during a valid exchange (" \o Ev.where \o "): " \o Ev.res) ELSE TRUE
              /\ dead' = TRUE /\ UNCHANGED <<q, sc, marks>>
         [] Ev.ev = "End" ->
              /\ IF dead THEN TRUE
                 ELSE IF q # <<>> THEN Say("IOP", "items sent but never raised at the receiver")
                 ELSE IF Needed \ marks # {} THEN Say("IOP", "workflow did not complete: missing " \o (CHOOSE m \in Needed \ marks : TRUE))
                 ELSE TRUE
              /\ UNCHANGED <<q, sc, marks, dead>>
         [] OTHER -> UNCHANGED <<q, sc, marks, dead>>
    /\ l' = l + 1 /\ UNCHANGED fin

Finish == l = NRec + 1 /\ ~fin /\ fin' = TRUE /\ UNCHANGED <<l, q, sc, marks, dead>> /\ PrintT("@@ACCEPT|" \o ToString(NRec) \o "|0")
Next == Step \/ Finish
Spec == Init /\ [][Next]_vars
=============================================================================
