//! Partition-independence driver (C15): the same byte stream under two partitions, on two fresh
//! instances in the same pre-state.  Logs for Trace_Pair.tla.
use crate::chunk::{cuts, gen_ser_steps, payload_json, Limits, Part};
use crate::util::*;
use bytes::Bytes;
use rml_amf0::Amf0Value;
use rml_rtmp::chunk_io::{ChunkDeserializer, ChunkSerializer};
use rml_rtmp::messages::{MessagePayload, RtmpMessage, UserControlEventType};
use rml_rtmp::sessions::{ClientSession, ClientSessionConfig, ClientSessionResult, PublishRequestType, ServerSession, ServerSessionConfig,
                         ServerSessionEvent, ServerSessionResult};
use rml_rtmp::time::RtmpTimestamp;
use serde_json::{json, Value};
use std::collections::HashMap;
use std::panic::{catch_unwind, AssertUnwindSafe};

fn err_kind(s: &str) -> String {
    // the variant name only (payloads of error values may legitimately mention positions)
    let t: String = s.chars().take_while(|c| c.is_alphanumeric() || *c == ':' || *c == '_').collect();
    t
}

fn run_deser(stream: &[u8], pieces: &[usize]) -> Value {
    let mut d = ChunkDeserializer::new();
    let mut outs = Vec::new();
    let mut pos = 0;
    let mut err = "none".to_string();
    'outer: for &n in pieces {
        let piece = &stream[pos..pos + n];
        pos += n;
        let mut first = true;
        loop {
            let r = catch_unwind(AssertUnwindSafe(|| if first { d.get_next_message(piece) } else { d.get_next_message(&[]) }));
            first = false;
            match r {
                Ok(Ok(Some(p))) => {
                    if p.type_id == 1 && p.data.len() >= 4 {
                        let sz = u32::from_be_bytes([p.data[0], p.data[1], p.data[2], p.data[3]]) & 0x7FFF_FFFF;
                        if d.set_max_chunk_size(sz as usize).is_err() {
                            outs.push(payload_json(&p));
                            err = "err:setcs".into();
                            break 'outer;
                        }
                    }
                    outs.push(payload_json(&p));
                }
                Ok(Ok(None)) => break,
                Ok(Err(e)) => { err = err_kind(&format!("err:{:?}", e)); break 'outer; }
                Err(p) => { err = err_kind(&format!("panic:{}", panic_msg(p))); break 'outer; }
            }
        }
    }
    json!({"outs":outs,"err":err})
}

fn mutate(rng: &mut Rng, b: &mut Vec<u8>) {
    let muts = rng.range(1, 3);
    for _ in 0..muts {
        if b.is_empty() { return; }
        let p = rng.below(b.len() as u64) as usize;
        match rng.below(4) {
            0 => b[p] ^= 1 << rng.below(8),
            1 => { b.remove(p); }
            2 => b.insert(p, rng.next() as u8),
            _ => b.truncate(p.max(1)),
        }
    }
}

fn s(x: &str) -> Amf0Value { Amf0Value::Utf8String(x.to_string()) }
fn obj(pairs: Vec<(&str, Amf0Value)>) -> Amf0Value {
    let mut p = HashMap::new();
    for (k, v) in pairs { p.insert(k.to_string(), v); }
    Amf0Value::Object(p)
}
fn cmd(name: &str, txn: f64, o: Amf0Value, args: Vec<Amf0Value>) -> RtmpMessage {
    RtmpMessage::Amf0Command { command_name: name.into(), transaction_id: txn, command_object: o, additional_arguments: args }
}

/// an inbound stream for a session: pure input, no application calls in between
fn session_stream(rng: &mut Rng, server: bool, n: usize) -> Vec<u8> {
    let mut ser = ChunkSerializer::new();
    let mut out = Vec::new();
    for _ in 0..n {
        let ts = *rng.pick(&[0u32, 5, 0xFFFFFF, 0x1000000, 40]);
        let msid = *rng.pick(&[0u32, 1, 1, 2]);
        let m: RtmpMessage = match rng.below(14) {
            0 => RtmpMessage::UserControl { event_type: UserControlEventType::PingRequest, stream_id: None, buffer_length: None, timestamp: Some(RtmpTimestamp::new(ts)) },
            1 => RtmpMessage::Acknowledgement { sequence_number: rng.u32() },
            2 => RtmpMessage::WindowAcknowledgement { size: *rng.pick(&[1u32, 50, 4096, 1 << 20]) },
            3 => { let sz = *rng.pick(&[1u32, 3, 128, 4096]); let p = ser.set_max_chunk_size(sz, RtmpTimestamp::new(0)).unwrap(); out.extend(p.bytes); continue; }
            4 | 5 => { let n = *rng.pick(&[0usize, 1, 100, 300]); RtmpMessage::AudioData { data: Bytes::from(crate::sess::media_data(rng, n)) } }
            6 | 7 => { let n = *rng.pick(&[0usize, 5, 200, 1000]); RtmpMessage::VideoData { data: Bytes::from(crate::sess::media_data(rng, n)) } }
            8 => if server { cmd("createStream", 4.0, Amf0Value::Null, vec![]) } else { cmd("_result", *rng.pick(&[1.0, 2.0, 9.0]), Amf0Value::Null, vec![Amf0Value::Number(1.0)]) },
            9 => if server { cmd("publish", 0.0, Amf0Value::Null, vec![s("k"), s("live")]) } else { cmd("onStatus", 0.0, Amf0Value::Null, vec![obj(vec![("code", s(*rng.pick(&["NetStream.Play.Start", "NetStream.Publish.Start", "x"])))])]) },
            10 => if server { cmd("connect", 1.0, obj(vec![("app", s("live"))]), vec![]) } else { cmd("_error", *rng.pick(&[1.0, 7.0]), Amf0Value::Null, vec![]) },
            11 => if server { cmd("deleteStream", 0.0, Amf0Value::Null, vec![Amf0Value::Number(1.0)]) } else { RtmpMessage::Amf0Data { values: vec![s("onMetaData"), obj(vec![("width", Amf0Value::Number(3.0))])] } },
            12 => if server { RtmpMessage::Amf0Data { values: vec![s("@setDataFrame"), s("onMetaData"), obj(vec![("height", Amf0Value::Number(4.0))])] } } else { cmd("onBWDone", 0.0, Amf0Value::Null, vec![]) },
            _ => RtmpMessage::Unknown { type_id: 22, data: Bytes::from(rng.bytes(7)) },
        };
        let p = MessagePayload::from_rtmp_message(m, RtmpTimestamp::new(ts), msid).unwrap();
        out.extend(ser.serialize(&p, rng.chance(1, 8), false).unwrap().bytes);
    }
    out
}

fn run_server(state: u64, stream: &[u8], pieces: &[usize]) -> Value {
    rml_rtmp::verif::set_clock(Some(5));
    let (mut srv, mut peer) = crate::res::server_in_state(state as usize).expect("pre-state");
    let mut outs: Vec<Value> = Vec::new();
    let mut err = "none".to_string();
    let mut pos = 0;
    for &n in pieces {
        let r = catch_unwind(AssertUnwindSafe(|| srv.handle_input(&stream[pos..pos + n])));
        pos += n;
        match r {
            Ok(Ok(rs)) => outs.extend(crate::server::results_json(&mut peer, &rs).into_iter().map(strip)),
            Ok(Err(e)) => { err = err_kind(&format!("err:{:?}", e)); break; }
            Err(p) => { err = err_kind(&format!("panic:{}", panic_msg(p))); break; }
        }
    }
    json!({"outs":outs,"err":err})
}
fn run_client(state: u64, stream: &[u8], pieces: &[usize]) -> Value {
    rml_rtmp::verif::set_clock(Some(5));
    let (mut c, mut peer) = crate::res::client_in_state(state as usize).expect("pre-state");
    let mut outs: Vec<Value> = Vec::new();
    let mut err = "none".to_string();
    let mut pos = 0;
    for &n in pieces {
        let r = catch_unwind(AssertUnwindSafe(|| c.handle_input(&stream[pos..pos + n])));
        pos += n;
        match r {
            Ok(Ok(rs)) => outs.extend(crate::client::results_json(&mut peer, &rs).into_iter().map(strip)),
            Ok(Err(e)) => { err = err_kind(&format!("err:{:?}", e)); break; }
            Err(p) => { err = err_kind(&format!("panic:{}", panic_msg(p))); break; }
        }
    }
    json!({"outs":outs,"err":err})
}
/// the peer decoder of the harness is in a different compression state per partition only through
/// acknowledgements (projected away by the spec); nothing else to strip - kept as a hook
fn strip(v: Value) -> Value { v }

pub fn generate(tier: &str, seed: u64, shard: u64, nshards: u64, path: &str) -> Value {
    quiet_panics();
    let mut t = Trace::create(path);
    let mut rng = Rng::new(seed ^ shard.wrapping_mul(0xC2B2AE35) ^ 1515);
    let n = (if tier == "thorough" { 16000 } else { 2400 }) / nshards as usize + 1;
    let parts = [Part::OneShot, Part::ByteWise, Part::Random, Part::HeaderCuts, Part::PerPacket];
    let mut runs = 0usize;
    for i in 0..n {
        let kind = ["deser", "deser", "server", "client"][i % 4];
        let pa = parts[i % 2];
        let pb = parts[2 + (rng.below(3) as usize)];
        match kind {
            "deser" => {
                let lim = Limits { max_len: 3000, max_chunks: 20 };
                let nsteps = rng.range(1, 10) as usize;
                let steps = gen_ser_steps(&mut rng, nsteps, &lim, false);
                let mut ser = ChunkSerializer::new();
                let mut stream = Vec::new();
                let mut ends = Vec::new();
                for st in steps {
                    let r = match st.setcs {
                        Some(v) => ser.set_max_chunk_size(v, RtmpTimestamp::new(st.m.ts)),
                        None => ser.serialize(&MessagePayload { timestamp: RtmpTimestamp::new(st.m.ts), type_id: st.m.ty, message_stream_id: st.m.msid, data: Bytes::from(st.m.data) }, st.fu, false),
                    };
                    if let Ok(p) = r { stream.extend(p.bytes); ends.push(stream.len()); }
                }
                let mutated = i % 8 >= 2;
                if mutated { mutate(&mut rng, &mut stream); }
                let ends: Vec<usize> = ends.into_iter().filter(|&e| e <= stream.len()).collect();
                let ca = cuts(&mut rng, pa, stream.len(), &ends);
                let cb = cuts(&mut rng, pb, stream.len(), &ends);
                let a = run_deser(&stream, &ca);
                let b = run_deser(&stream, &cb);
                t.emit(&json!({"ev":"Pair","kind":"deser","mutated":mutated,"stream":segs(&stream),"pa":format!("{:?}", pa),"pb":format!("{:?}", pb),"ca":ca,"cb":cb,"a":a,"b":b}));
            }
            _ => {
                let server = kind == "server";
                let state = rng.below(if server { 5 } else { 9 });
                let nm = rng.range(1, 12) as usize;
                let mut stream = session_stream(&mut rng, server, nm);
                let mutated = i % 8 >= 4;
                if mutated { mutate(&mut rng, &mut stream); }
                let ca = cuts(&mut rng, pa, stream.len(), &[]);
                let cb = cuts(&mut rng, if matches!(pb, Part::PerPacket) { Part::Random } else { pb }, stream.len(), &[]);
                let (a, b) = if server { (run_server(state, &stream, &ca), run_server(state, &stream, &cb)) } else { (run_client(state, &stream, &ca), run_client(state, &stream, &cb)) };
                t.emit(&json!({"ev":"Pair","kind":kind,"state":state,"mutated":mutated,"stream":segs(&stream),"pa":format!("{:?}", pa),"pb":format!("{:?}", pb),"ca":ca,"cb":cb,"a":a,"b":b}));
            }
        }
        runs += 1;
    }
    t.flush();
    json!({"kind":"pair","runs":runs,"lines":t.line,"path":path})
}

/// debugging aid: re-run one logged server/client pair member and print every call's results
pub fn debug(file: &str, line: usize, which: &str) {
    let text = std::fs::read_to_string(file).unwrap();
    let e: Value = serde_json::from_str(text.lines().nth(line - 1).unwrap()).unwrap();
    let mut stream: Vec<u8> = Vec::new();
    for seg in e["stream"].as_array().unwrap() {
        if let Some(l) = seg.get("l") { for x in l.as_array().unwrap() { stream.push(x.as_u64().unwrap() as u8); } }
        if let Some(r) = seg.get("r") { let v = r[0].as_u64().unwrap() as u8; for _ in 0..r[1].as_u64().unwrap() { stream.push(v); } }
    }
    let cuts: Vec<usize> = e[which].as_array().unwrap().iter().map(|x| x.as_u64().unwrap() as usize).collect();
    let state = e["state"].as_u64().unwrap_or(0);
    rml_rtmp::verif::set_clock(Some(5));
    let (mut srv, mut peer) = crate::res::server_in_state(state as usize).expect("pre");
    let mut pos = 0;
    for n in cuts {
        let r = srv.handle_input(&stream[pos..pos + n]);
        println!("call {}..{} -> {}", pos, pos + n, match &r { Ok(rs) => format!("ok {} results", rs.len()), Err(e) => format!("err {:?}", e) });
        pos += n;
        if let Ok(rs) = r {
            for x in rs.iter() {
                match x {
                    rml_rtmp::sessions::ServerSessionResult::OutboundResponse(p) => {
                        let d = peer.decode(p);
                        println!("   packet {:?} -> {}", &p.bytes[..p.bytes.len().min(24)], d.iter().map(|v| format!("{}:{}", v["ty"], v["msg"]["k"])).collect::<Vec<_>>().join(","));
                    }
                    other => println!("   {:?}", format!("{:?}", other).chars().take(100).collect::<String>()),
                }
            }
        }
    }
}
