//! Shared pieces of the session drivers: a peer codec (library-made encoder / decoder; the codec
//! itself is judged by the chunk suites, not here), result logging, probes, metadata.
use crate::msg::msg_json;
use crate::util::*;
use bytes::Bytes;
use rml_amf0::Amf0Value;
use rml_rtmp::chunk_io::{ChunkDeserializer, ChunkSerializer, Packet};
use rml_rtmp::messages::{MessagePayload, RtmpMessage};
use rml_rtmp::sessions::StreamMetadata;
use rml_rtmp::time::RtmpTimestamp;
use serde_json::{json, Value};
use std::collections::HashMap;
use crate::chunk::Run;
use rml_rtmp::verif::SerializedHeader;

pub fn bytes_json(b: &[u8]) -> Value {
    json!(b.to_vec())
}

pub fn unhex(s: &str) -> Vec<u8> {
    (0..s.len() / 2).map(|i| u8::from_str_radix(&s[2 * i..2 * i + 2], 16).unwrap_or(0)).collect()
}

/// The peer of the session under test.
pub struct Peer {
    pub ser: ChunkSerializer,
    pub de: ChunkDeserializer,
}
impl Peer {
    pub fn new() -> Peer {
        Peer { ser: ChunkSerializer::new(), de: ChunkDeserializer::new() }
    }
    /// Encode one message for the session (SetChunkSize goes through set_max_chunk_size so that
    /// the encoder follows its own announcement).
    pub fn encode(&mut self, m: RtmpMessage, ts: u32, msid: u32) -> Vec<u8> {
        if let RtmpMessage::SetChunkSize { size } = m {
            return self.ser.set_max_chunk_size(size, RtmpTimestamp::new(ts)).expect("peer setcs").bytes;
        }
        let p = MessagePayload::from_rtmp_message(m, RtmpTimestamp::new(ts), msid).expect("peer payload");
        self.ser.serialize(&p, false, false).expect("peer serialize").bytes
    }
    pub fn encode_raw(&mut self, ty: u8, body: Vec<u8>, ts: u32, msid: u32) -> Vec<u8> {
        let p = MessagePayload { timestamp: RtmpTimestamp::new(ts), type_id: ty, message_stream_id: msid, data: Bytes::from(body) };
        self.ser.serialize(&p, false, false).expect("peer serialize").bytes
    }
    /// Decode what the session returned; honours the session's chunk size announcements.
    pub fn decode(&mut self, pk: &Packet) -> Vec<Value> {
        let mut out = Vec::new();
        let mut first = true;
        loop {
            let r = if first { self.de.get_next_message(&pk.bytes) } else { self.de.get_next_message(&[]) };
            first = false;
            match r {
                Ok(Some(p)) => {
                    let mut v = json!({"k":"out","msid":p.message_stream_id,"ts":w(p.timestamp.value),"drop":pk.can_be_dropped,
                                       "ty":p.type_id,"arg0num":[],"txnnum":[]});
                    match p.to_rtmp_message() {
                        Ok(m) => {
                            if let RtmpMessage::SetChunkSize { size } = m {
                                let _ = self.de.set_max_chunk_size(size as usize);
                            }
                            if let RtmpMessage::Amf0Command { transaction_id, .. } = m {
                                if transaction_id >= 0.0 && transaction_id < 2147483648.0 && transaction_id.fract() == 0.0 {
                                    v["txnnum"] = json!([transaction_id as u32]);
                                }
                            }
                            if let RtmpMessage::Amf0Command { ref additional_arguments, .. } = m {
                                if let Some(Amf0Value::Number(x)) = additional_arguments.get(0) {
                                    if *x >= 0.0 && *x < 2147483648.0 && x.fract() == 0.0 {
                                        v["arg0num"] = json!([*x as u32]);
                                    }
                                }
                            }
                            v["msg"] = msg_json(&m);
                        }
                        Err(e) => {
                            v["msg"] = json!({"k":"Undecodable","why":format!("{:?}", e)});
                        }
                    }
                    out.push(v);
                }
                Ok(None) => break,
                Err(e) => {
                    out.push(json!({"k":"out","msid":0,"ts":w(0),"drop":pk.can_be_dropped,"ty":0,"arg0num":[],"txnnum":[],
                                    "msg":{"k":"Undecodable","why":format!("{:?}", e)}}));
                    break;
                }
            }
        }
        if out.is_empty() {
            out.push(json!({"k":"out","msid":0,"ts":w(0),"drop":pk.can_be_dropped,"ty":0,"arg0num":[],"txnnum":[],
                            "msg":{"k":"Undecodable","why":"packet did not complete a message"}}));
        }
        out
    }
}

fn ou(v: Option<u32>) -> Value {
    match v {
        Some(x) => json!([x]),
        None => json!([]),
    }
}

pub fn meta_json(m: &StreamMetadata) -> Value {
    json!({
        "w": ou(m.video_width), "h": ou(m.video_height), "vc": ou(m.video_codec_id),
        "fr": match m.video_frame_rate { Some(f) => json!([w(f.to_bits())]), None => json!([]) },
        "vb": ou(m.video_bitrate_kbps), "ac": ou(m.audio_codec_id), "ab": ou(m.audio_bitrate_kbps),
        "sr": ou(m.audio_sample_rate), "ch": ou(m.audio_channels),
        "st": match m.audio_is_stereo { Some(b) => json!([b]), None => json!([]) },
        "enc": match &m.encoder { Some(s) => json!([s.as_bytes().to_vec()]), None => json!([]) },
    })
}

pub fn gen_meta(rng: &mut Rng) -> StreamMetadata {
    let mut m = StreamMetadata::new();
    let u = |rng: &mut Rng| -> Option<u32> {
        if rng.chance(1, 3) { None } else { Some(*rng.pick(&[0u32, 1, 30, 1920, 65535, 65536, 0x7FFFFFFF, 0xFFFFFFFF])) }
    };
    m.video_width = u(rng);
    m.video_height = u(rng);
    m.video_codec_id = u(rng);
    m.video_bitrate_kbps = u(rng);
    m.audio_codec_id = u(rng);
    m.audio_bitrate_kbps = u(rng);
    m.audio_sample_rate = u(rng);
    m.audio_channels = u(rng);
    m.video_frame_rate = if rng.chance(1, 3) { None } else { Some(*rng.pick(&[0.0f32, 29.97, 30.0, 60.0, 1e9])) };
    m.audio_is_stereo = if rng.chance(1, 3) { None } else { Some(rng.chance(1, 2)) };
    m.encoder = if rng.chance(1, 3) { None } else { Some(rng.pick(&["obs", "", "\u{e9}ncoder 1.0"]).to_string()) };
    m
}

/// The AMF0 object a foreign encoder would send for this metadata (built here, not by the library).
pub fn meta_object(m: &StreamMetadata) -> Amf0Value {
    let mut p = HashMap::new();
    let mut n = |k: &str, v: Option<u32>| {
        if let Some(x) = v {
            p.insert(k.to_string(), Amf0Value::Number(x as f64));
        }
    };
    n("width", m.video_width);
    n("height", m.video_height);
    n("videocodecid", m.video_codec_id);
    n("videodatarate", m.video_bitrate_kbps);
    n("audiocodecid", m.audio_codec_id);
    n("audiodatarate", m.audio_bitrate_kbps);
    n("audiosamplerate", m.audio_sample_rate);
    n("audiochannels", m.audio_channels);
    if let Some(f) = m.video_frame_rate {
        p.insert("framerate".to_string(), Amf0Value::Number(f as f64));
    }
    if let Some(b) = m.audio_is_stereo {
        p.insert("stereo".to_string(), Amf0Value::Boolean(b));
    }
    if let Some(ref e) = m.encoder {
        p.insert("encoder".to_string(), Amf0Value::Utf8String(e.clone()));
    }
    Amf0Value::Object(p)
}

pub fn txn_json(t: f64) -> Value {
    json!(t.to_bits().to_be_bytes().to_vec())
}

pub fn media_data(rng: &mut Rng, len: usize) -> Vec<u8> {
    let mut v = vec![rng.next() as u8; len];
    for i in 0..len.min(12) {
        v[i] = rng.next() as u8;
    }
    if len > 30 {
        let p = rng.range(12, len as u64 - 1) as usize;
        v[p] = v[p].wrapping_add(1);
    }
    v
}

/// Did a failing handle_input call discard an acknowledgement it had already serialized?
/// (Then the session's serializer is ahead of what the peer saw - finding K1 - and the peer
/// decoder of this harness cannot follow any more.)
pub fn lost_ack(prev_probe: &Value, e: &Value) -> bool {
    let win = prev_probe["window"].get(0).and_then(|x| x.as_u64());
    let pend = prev_probe["pending"].as_u64().unwrap_or(0);
    let n = e["n"].as_u64().unwrap_or(0);
    match win {
        Some(w) => pend + n >= w,
        None => false,
    }
}

/// Byte-level record of everything a session returned (C18), in Trace_Chunk format: one Ser event
/// per returned packet, in RETURNED order, whose intent is what the session asked its serializer
/// to encode for exactly that packet (serializer tap).  Packets that were serialized but never
/// returned (a failing call) are logged as omitted: the sender's memory advanced, the peer never
/// saw them.
pub struct WireLog {
    pub run: Run,
    pub lost: usize,
    pub packets: usize,
}
impl WireLog {
    pub fn record(&mut self, packets: &[&Packet], mut taps: Vec<SerializedHeader>, site: &str) {
        let ser = |t: &SerializedHeader, line: usize, drop: bool| -> Value {
            json!({"ev":"Ser","ty":t.type_id,"msid":w(t.message_stream_id),"ts":w(t.timestamp),"len":t.length,
                   "data":segs(&t.data),"fu":t.force_uncompressed,"cd":t.can_be_dropped,"res":"ok","drop":drop,
                   "ml":line,"api":"sess","badsize":false})
        };
        for p in packets {
            self.packets += 1;
            let line = self.run.next_line();
            match taps.iter().position(|t| t.output == p.bytes) {
                Some(i) => {
                    let t = taps.remove(i);
                    let v = ser(&t, line, p.can_be_dropped);
                    self.run.wire(v, &p.bytes, true, false);
                }
                None => {
                    // a packet nobody serialized in this call: log it with an impossible intent
                    let v = json!({"ev":"Ser","ty":0,"msid":w(0),"ts":w(0),"len":0,"data":[],"fu":false,"cd":p.can_be_dropped,
                                   "res":"ok","drop":p.can_be_dropped,"ml":line,"api":"sess-unknown","badsize":false});
                    self.run.wire(v, &p.bytes, true, false);
                }
            }
        }
        for t in taps {
            if t.output.is_empty() {
                continue;
            }
            self.lost += 1;
            let line = self.run.next_line();
            let mut v = ser(&t, line, t.can_be_dropped);
            v["lost"] = json!(site); // which call serialized it and then failed
            let out = t.output.clone();
            self.run.wire(v, &out, true, true);
        }
    }
}
