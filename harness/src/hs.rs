//! Drivers for the handshake (C05 flow, C11 digests).  Logs for Trace_Handshake.tla.
use crate::sha::{hmac, self_check};
use crate::util::*;
use rml_rtmp::handshake::{Handshake, HandshakeProcessResult, PeerType};
use serde_json::{json, Value};
use std::panic::{catch_unwind, AssertUnwindSafe};

const FMS: &[u8] = b"Genuine Adobe Flash Media Server 001";
const FP: &[u8] = b"Genuine Adobe Flash Player 001";
const CRUD: [u8; 32] = [0xf0, 0xee, 0xc2, 0x4a, 0x80, 0x68, 0xbe, 0xe8, 0x2e, 0x00, 0xd0, 0xd1, 0x02, 0x9e, 0x7e, 0x57, 0x6e, 0xec, 0x5d, 0x2d,
                        0x29, 0x80, 0x6f, 0xab, 0x93, 0xb8, 0xe6, 0x36, 0xcf, 0xeb, 0x31, 0xae];
const P: usize = 1536;

fn full(k: &[u8]) -> Vec<u8> {
    let mut v = k.to_vec();
    v.extend_from_slice(&CRUD);
    v
}

/// positions 0..=1504 at which p carries HMAC(key, p without those 32 bytes)
fn scan(p: &[u8], key: &[u8]) -> Vec<usize> {
    (0..=P - 32).filter(|&o| hmac(key, &[&p[..o], &p[o + 32..]])[..] == p[o..o + 32]).collect()
}
fn valid_at(p: &[u8], key: &[u8], o: usize) -> bool {
    hmac(key, &[&p[..o], &p[o + 32..]])[..] == p[o..o + 32]
}

fn p1_facts(p1: &[u8], role: &str, lib: bool, dpos: i64) -> Value {
    let (vfp, vfms) = if lib { (scan(p1, FP), scan(p1, FMS)) } else {
        let o = dpos as usize;
        (if valid_at(p1, FP, o) { vec![o] } else { vec![] }, if valid_at(p1, FMS, o) { vec![o] } else { vec![] })
    };
    json!({"ev":"P1Facts","role":role,"lib":lib,"dpos":dpos,"ob":p1[8..12].to_vec(),"ob2":p1[772..776].to_vec(),
           "valid":{"fp":vfp,"fms":vfms}})
}

/// facts about a packet 2 answering peer_p1 (whose digest, if any, is at dpos)
fn p2_facts(p2: &[u8], peer_p1: &[u8], role: &str, dpos: i64) -> Value {
    let mut sig: Vec<Value> = Vec::new();
    // candidate digests: every position of the peer's packet 1 holding a valid digest under either constant key
    let mut cands: Vec<usize> = Vec::new();
    if dpos >= 0 {
        cands.push(dpos as usize);
    }
    for (name, key) in [("fpfull", full(FP)), ("fmsfull", full(FMS)), ("fp", FP.to_vec()), ("fms", FMS.to_vec())].iter() {
        for &o in cands.iter() {
            let d = &peer_p1[o..o + 32];
            let k1 = hmac(key, &[d]);
            if hmac(&k1, &[&p2[..P - 32]])[..] == p2[P - 32..] {
                sig.push(json!([name, o]));
            }
        }
    }
    json!({"ev":"P2Facts","role":role,"dpos":dpos,"sig":sig,"echo": p2 == peer_p1})
}

pub struct Side {
    pub h: Handshake,
    pub name: &'static str,
    pub role: &'static str,
}

fn gen_event(s: &mut Side) -> (Value, Vec<u8>) {
    match catch_unwind(AssertUnwindSafe(|| s.h.generate_outbound_p0_and_p1())) {
        Ok(Ok(b)) => (json!({"ev":"Gen","side":s.name,"res":"ok","len":b.len(),"first":b.get(0).cloned().unwrap_or(0)}), b),
        Ok(Err(e)) => (json!({"ev":"Gen","side":s.name,"res":format!("err:{:?}", e),"len":0,"first":0}), vec![]),
        Err(p) => (json!({"ev":"Gen","side":s.name,"res":format!("panic:{}", panic_msg(p)),"len":0,"first":0}), vec![]),
    }
}

fn proc_event(s: &mut Side, inp: &[u8]) -> (Value, Vec<u8>, bool, Vec<u8>) {
    let r = catch_unwind(AssertUnwindSafe(|| s.h.process_bytes(inp)));
    let (res, kind, resp, rem) = match r {
        Ok(Ok(HandshakeProcessResult::InProgress { response_bytes })) => ("ok".to_string(), "InProgress", response_bytes, vec![]),
        Ok(Ok(HandshakeProcessResult::Completed { response_bytes, remaining_bytes })) => ("ok".to_string(), "Completed", response_bytes, remaining_bytes),
        Ok(Err(e)) => (format!("err:{:?}", e), "Error", vec![], vec![]),
        Err(p) => (format!("panic:{}", panic_msg(p)), "Error", vec![], vec![]),
    };
    let ev = json!({"ev":"Proc","side":s.name,"n":inp.len(),"inp":segs(inp),"res":res,"kind":kind,"rlen":resp.len(),
                    "rfirst":resp.get(0).cloned().unwrap_or(0),"remaining":segs(&rem)});
    (ev, resp, kind == "Completed", rem)
}

/// a legacy (digest-less) peer written here: sends 3 + p1 (time, zero, random), echoes the peer's p1 as p2
struct Legacy {
    p1: Vec<u8>,
    got: Vec<u8>,
    sent_p2: bool,
}

fn cut(rng: &mut Rng, mode: u64, avail: usize) -> usize {
    if avail == 0 { return 0; }
    let n = match mode {
        0 => avail,
        1 => 1,
        2 => *rng.pick(&[1usize, 2, 511, 512, 513, 1024, 1535, 1536, 1537, 3072, 3073, 3074]),
        _ => rng.range(1, 2000) as usize,
    };
    n.min(avail)
}

/// One complete exchange lib x lib (C05 + facts for C11).  Returns number of Proc calls.
fn exchange(t: &mut Trace, rng: &mut Rng, facts: bool) -> usize {
    let a_role = if rng.chance(1, 2) { "client" } else { "server" };
    let b_role = if a_role == "client" { "server" } else { "client" };
    let mk = |r: &str| if r == "client" { PeerType::Client } else { PeerType::Server };
    let mut a = Side { h: Handshake::new(mk(a_role)), name: "A", role: a_role };
    let mut b = Side { h: Handshake::new(mk(b_role)), name: "B", role: b_role };
    t.emit(&json!({"ev":"HsNew","side":"A","role":a_role}));
    t.emit(&json!({"ev":"HsNew","side":"B","role":b_role}));
    // wire[0]: bytes in flight to A, wire[1]: to B;   out streams for fact extraction
    let mut wire: [Vec<u8>; 2] = [vec![], vec![]];
    let mut outs: [Vec<u8>; 2] = [vec![], vec![]]; // everything A / B emitted (handshake bytes)
    let mut done = [false, false];
    let mut sent_t = [false, false];
    // one exchange in six has a LOT of application data right behind the handshake (62 000 .. 140 000 bytes: buffered amounts
    // cross 2^16 and 2^17); constant fill with marked ends keeps the log small
    let bigt = rng.chance(1, 6);
    let tlen = if bigt { [*rng.pick(&[62464usize, 63999, 64000, 65535, 65536, 70000, 131072, 140000]), *rng.pick(&[0usize, 5, 62464, 65536, 100000])] }
               else { [*rng.pick(&[0usize, 1, 2, 17, 64, 1538]), *rng.pick(&[0usize, 1, 5, 64, 300, 2000])] };
    let mk_tail = |n: usize, a: usize, b: usize, big: bool| -> Vec<u8> {
        if !big { return (0..n).map(|i| (i * a + b) as u8).collect(); }
        let mut v = vec![0xAB_u8; n];
        for i in 0..n.min(9) { v[i] = (i * a + b) as u8; v[n - 1 - i] = (i * 5 + 1) as u8; }
        if n > 40 { v[n / 2] = 0xCD; }
        v
    };
    let trailing: [Vec<u8>; 2] = [mk_tail(tlen[0], 7, 1, bigt), mk_tail(tlen[1], 3, 2, bigt)];
    let mut app: [Vec<u8>; 2] = [vec![], vec![]];
    let mode = if bigt { *rng.pick(&[0u64, 0, 3]) } else if facts { *rng.pick(&[0u64, 2, 3]) } else { *rng.pick(&[0u64, 0, 0, 0, 0, 2, 2, 2, 2, 2, 2, 2, 3, 3, 3, 3, 3, 3, 3, 1]) };
    let mut calls = 0usize;
    // who starts: A generates, or B, or both, or nobody explicitly (then someone must: A)
    let starter = rng.below(3);
    if starter != 1 {
        let (ev, bytes) = gen_event(&mut a);
        t.emit(&ev);
        outs[0].extend_from_slice(&bytes);
        wire[1].extend_from_slice(&bytes);
    }
    if starter != 0 {
        let (ev, bytes) = gen_event(&mut b);
        t.emit(&ev);
        outs[1].extend_from_slice(&bytes);
        wire[0].extend_from_slice(&bytes);
    }
    let mut guard = 0;
    loop {
        guard += 1;
        if guard > 20000 { break; }
        // application data follows each side's own handshake bytes
        for s in 0..2 {
            if !sent_t[s] && outs[s].len() == 1 + 2 * P {
                sent_t[s] = true;
                let tr = trailing[s].clone();
                wire[1 - s].extend_from_slice(&tr);
            }
        }
        let cands: Vec<usize> = (0..2).filter(|&s| !wire[s].is_empty()).collect();
        if cands.is_empty() { break; }
        let s = *rng.pick(&cands);
        let n = cut(rng, mode, wire[s].len());
        let piece: Vec<u8> = wire[s].drain(..n).collect();
        if done[s] {
            app[s].extend_from_slice(&piece); // routed past the completed handshake
            continue;
        }
        let side = if s == 0 { &mut a } else { &mut b };
        let (ev, resp, completed, rem) = proc_event(side, &piece);
        calls += 1;
        let failed = ev["res"] != "ok";
        t.emit(&ev);
        if failed { break; }
        outs[s].extend_from_slice(&resp);
        wire[1 - s].extend_from_slice(&resp);
        if completed {
            done[s] = true;
            app[s].extend_from_slice(&rem);
        }
    }
    // end-to-end: trailing bytes arrive intact, exactly once (by value)
    for s in 0..2 {
        let ok = done[s] && app[s] == trailing[1 - s];
        t.emit(&json!({"ev":"AppData","side": if s == 0 {"A"} else {"B"},"done":done[s],"intact":ok,"want":trailing[1 - s].len(),"got":app[s].len()}));
    }
    if facts && outs[0].len() == 1 + 2 * P && outs[1].len() == 1 + 2 * P {
        for (s, role) in [(0usize, a_role), (1usize, b_role)].iter() {
            let p1 = &outs[*s][1..1 + P];
            let f = p1_facts(p1, role, true, -1);
            t.emit(&f);
            // the digest position of the PEER's packet 1 that p2 must refer to: the position where the peer's p1 is valid
            let peer_p1 = &outs[1 - *s][1..1 + P];
            let peer_role = if *role == "client" { "server" } else { "client" };
            let key = if peer_role == "client" { FP } else { FMS };
            let pos = scan(peer_p1, key);
            let dpos = pos.get(0).map(|&x| x as i64).unwrap_or(-1);
            let p2 = &outs[*s][1 + P..1 + 2 * P];
            t.emit(&p2_facts(p2, peer_p1, role, dpos));
        }
    }
    calls
}

/// lib (either role, side A) against a harness-made peer that speaks the ORIGINAL digest-less handshake, under real
/// fragmentation: the peer sends 3 + packet 1 (no digest), echoes our packet 1 as its packet 2 once it has it, then
/// application data.  Only side A is a library object; its calls are judged by HsStep like any other.
fn exchange_legacy(t: &mut Trace, rng: &mut Rng) -> usize {
    let role = if rng.chance(1, 2) { "client" } else { "server" };
    let mut a = Side { h: Handshake::new(if role == "client" { PeerType::Client } else { PeerType::Server }), name: "A", role };
    t.emit(&json!({"ev":"HsNew","side":"A","role":role}));
    let mut p1 = rng.bytes(P);
    for i in 0..8 { p1[i] = 0; }
    if rng.chance(1, 3) { p1[4] = 9; } // some peers put a non-zero version there and still expect the original handshake
    let tlen = *rng.pick(&[0usize, 1, 3, 64, 1537, 1538, 2000]);
    let trailing: Vec<u8> = (0..tlen).map(|i| (i * 5 + 3) as u8).collect();
    let mut to_a: Vec<u8> = Vec::new();      // in flight towards the library
    let mut from_a: Vec<u8> = Vec::new();    // everything the library emitted
    let mode = *rng.pick(&[0u64, 0, 2, 2, 2, 3, 3, 3, 1]);
    let mut calls = 0usize;
    let mut done = false;
    let mut app: Vec<u8> = Vec::new();
    // the peer's style, as in MC_HandshakeLegacy: it starts (wait 0), or waits for the version byte (1) or for packets
    // 0 + 1 (1 + P) before sending anything; it may send packets 0, 1 and 2 in one go; it sends application data right
    // after its packet 2 or only once it has the library's packet 2 (strict)
    let wait = *rng.pick(&[0usize, 0, 1, 1 + P]);
    let batch = wait == 1 + P && rng.chance(1, 2);
    let strict = rng.chance(1, 2);
    // RTMP 5.2.4: packet 2 carries the peer's time, then "time2" (when the peer's packet 1 was read), then the random echo -
    // so a peer following the description does NOT send a byte-exact copy of our packet 1
    let stamp = rng.chance(1, 2);
    let a_starts = wait > 0 || rng.chance(1, 2);
    if a_starts {
        let (ev, bytes) = gen_event(&mut a);
        t.emit(&ev);
        from_a.extend_from_slice(&bytes);
    }
    let (mut sent01, mut sent2, mut sent_t) = (false, false, false);
    let mut guard = 0;
    loop {
        guard += 1;
        if guard > 20000 { break; }
        if !sent01 && from_a.len() >= wait && (!batch || from_a.len() >= 1 + P) {
            sent01 = true;
            to_a.push(3);
            to_a.extend_from_slice(&p1);
            if batch {
                sent2 = true;
                let mut echo = from_a[1..1 + P].to_vec();
                if stamp { echo[4..8].copy_from_slice(&[0, 0, 1, 44]); }
                to_a.extend_from_slice(&echo);
            }
        }
        if sent01 && !sent2 && from_a.len() >= 1 + P {
            sent2 = true;
            let mut echo = from_a[1..1 + P].to_vec();
            if stamp { echo[4..8].copy_from_slice(&[0, 0, 1, 44]); }
            to_a.extend_from_slice(&echo);
        }
        if sent2 && !sent_t && (!strict || from_a.len() >= 1 + 2 * P) {
            sent_t = true;
            to_a.extend_from_slice(&trailing);
        }
        if to_a.is_empty() { break; }
        // the peer's bytes may sit in the network while the library's answer travels: hold back delivery now and then
        let n = cut(rng, mode, to_a.len());
        let piece: Vec<u8> = to_a.drain(..n).collect();
        if done { app.extend_from_slice(&piece); continue; }
        let (ev, resp, completed, rem) = proc_event(&mut a, &piece);
        calls += 1;
        let failed = ev["res"] != "ok";
        t.emit(&ev);
        if failed { break; }
        from_a.extend_from_slice(&resp);
        if completed { done = true; app.extend_from_slice(&rem); }
    }
    t.emit(&json!({"ev":"AppData","side":"A","done":done,"intact":done && app == trailing,"want":trailing.len(),"got":app.len()}));
    if from_a.len() == 1 + 2 * P {
        t.emit(&p2_facts(&from_a[1 + P..], &p1, role, -1));
    }
    calls
}

/// lib against a crafted packet 1: every offset of both schemes, or a digest-less packet (echo expected)
fn crafted(t: &mut Trace, rng: &mut Rng, lib_role: &str, scheme: u64, offset: u32, high: bool, legacy: bool) {
    let mk = |r: &str| if r == "client" { PeerType::Client } else { PeerType::Server };
    let peer_role = if lib_role == "client" { "server" } else { "client" };
    let (p1, dpos) = craft_p1(t, rng, peer_role, scheme, offset, high, legacy);
    let mut a = Side { h: Handshake::new(mk(lib_role)), name: "A", role: if lib_role == "client" { "client" } else { "server" } };
    t.emit(&json!({"ev":"HsNew","side":"A","role":lib_role}));
    let mut inp = vec![3u8];
    inp.extend_from_slice(&p1);
    let (ev, resp, _, _) = proc_event(&mut a, &inp);
    let ok = ev["res"] == "ok";
    t.emit(&ev);
    if ok && resp.len() == 1 + 2 * P {
        let p2 = &resp[1 + P..];
        t.emit(&p2_facts(p2, &p1, a.role, dpos));
        // finish the exchange the way such a peer would: echo (legacy) or any packet 2, plus trailing data
        let mut fin = if legacy { resp[1..1 + P].to_vec() } else { rng.bytes(P) };
        fin.extend_from_slice(&[9, 8, 7]);
        let (ev2, _, _, _) = proc_event(&mut a, &fin);
        t.emit(&ev2);
    }
}

/// One Handshake instance used for two handshakes in a row (the public generate_outbound_p0_and_p1 starts it over): what the
/// first peer sent must not influence the answer to the second one.
fn restarted(t: &mut Trace, rng: &mut Rng, lib_role: &str, first_legacy: bool, second_legacy: bool) {
    let mk = |r: &str| if r == "client" { PeerType::Client } else { PeerType::Server };
    let peer_role = if lib_role == "client" { "server" } else { "client" };
    let mut a = Side { h: Handshake::new(mk(lib_role)), name: "A", role: if lib_role == "client" { "client" } else { "server" } };
    t.emit(&json!({"ev":"HsNew","side":"A","role":lib_role}));
    for (round, legacy) in [first_legacy, second_legacy].iter().enumerate() {
        let (ev, _) = gen_event(&mut a);
        let ok = ev["res"] == "ok";
        t.emit(&ev);
        if !ok { return; }
        let (scheme, off) = (rng.below(2), rng.below(728) as u32);
        let (p1, dpos) = craft_p1(t, rng, peer_role, scheme, off, false, *legacy);
        let mut inp = vec![3u8];
        inp.extend_from_slice(&p1);
        // the second packet 1 arrives in two pieces now and then
        let cutpos = if round == 1 && rng.chance(1, 2) { 1 + rng.below(P as u64) as usize } else { inp.len() };
        let (ev, mut resp, _, _) = proc_event(&mut a, &inp[..cutpos]);
        let mut ok = ev["res"] == "ok";
        t.emit(&ev);
        if ok && cutpos < inp.len() {
            let (ev, r2, _, _) = proc_event(&mut a, &inp[cutpos..]);
            ok = ev["res"] == "ok";
            t.emit(&ev);
            resp.extend_from_slice(&r2);
        }
        if !ok || resp.len() != P { return; }
        t.emit(&p2_facts(&resp, &p1, a.role, dpos));
    }
}

/// a packet 1 as a peer of role `peer_role` would send it: digest-less, or with a valid digest at the given scheme / offset
fn craft_p1(t: &mut Trace, rng: &mut Rng, peer_role: &str, scheme: u64, offset: u32, high: bool, legacy: bool) -> (Vec<u8>, i64) {
    let mut p1 = rng.bytes(P);
    // the time field: zero (as this library sends it) or the peer's uptime (as Flash players and most servers send it)
    let time = *rng.pick(&[[0u8, 0, 0, 0], [0, 0, 0, 0], [0, 1, 226, 64], [255, 255, 255, 255], [18, 52, 86, 120]]);
    p1[0..4].copy_from_slice(&time);
    let mut dpos: i64 = -1;
    if legacy {
        p1[4..8].copy_from_slice(&[0, 0, 0, 0]);
    } else {
        // the version field of a digest-bearing packet is usually non-zero, but nothing says it must be
        let ver = *rng.pick(&[[128u8, 0, 7, 2], [128, 0, 7, 2], [9, 0, 124, 2], [0, 0, 0, 0], [0, 0, 0, 1]]);
        p1[4..8].copy_from_slice(&ver);
        // four bytes with sum == offset (or offset + 728 when a high preimage exists)
        let target = if high && offset + 728 <= 1020 { offset + 728 } else { offset };
        let mut left = target;
        let mut four = [0u8; 4];
        for i in 0..4 {
            let v = left.min(255);
            four[i] = v as u8;
            left -= v;
        }
        let base = if scheme == 0 { 8 } else { 772 };
        p1[base..base + 4].copy_from_slice(&four);
        let o = (offset as usize) + if scheme == 0 { 12 } else { 776 };
        let key = if peer_role == "client" { FP } else { FMS };
        let d = hmac(key, &[&p1[..o], &p1[o + 32..]]);
        p1[o..o + 32].copy_from_slice(&d);
        dpos = o as i64;
        t.emit(&p1_facts(&p1, peer_role, false, dpos));
    }
    (p1, dpos)
}

pub fn generate(kind: &str, tier: &str, seed: u64, shard: u64, nshards: u64, path: &str) -> Value {
    quiet_panics();
    self_check();
    let mut t = Trace::create(path);
    let mut rng = Rng::new(seed ^ shard.wrapping_mul(0x1B873593) ^ 1536);
    let mut runs = 0usize;
    let mut calls = 0usize;
    match kind {
        "flow" => {
            let n = (if tier == "thorough" { 40000 } else { 1200 }) / nshards as usize + 1;
            for _ in 0..n {
                calls += exchange(&mut t, &mut rng, false);
                runs += 1;
            }
            // against the legacy (digest-less) peer, fragmented
            for _ in 0..(n / 2 + 1) {
                calls += exchange_legacy(&mut t, &mut rng);
                runs += 1;
            }
            // against the legacy peer
            for i in 0..(n / 4 + 1) {
                crafted(&mut t, &mut rng, if i % 2 == 0 { "server" } else { "client" }, 0, 0, false, true);
                runs += 1;
            }
        }
        "digest" => {
            // own packets: deterministic fill (hook) with varying seeds, full scan of each packet 1
            let n = (if tier == "thorough" { 6400 } else { 640 }) / nshards as usize + 1;
            for i in 0..n {
                rml_rtmp::verif::set_fill(Some((rng.next(), rng.next() | 1)));
                calls += exchange(&mut t, &mut rng, true);
                rml_rtmp::verif::set_fill(None);
                if i % 8 == 0 {
                    calls += exchange(&mut t, &mut rng, true); // and with the real random fill
                }
                runs += 1;
            }
            // own packets, EVERY offset: the deterministic fill is re-seeded until the four selector bytes of the role's
            // scheme have summed to each of the 728 offsets once (a coupon collector: ~5 000 packets per role); only the
            // packet that reaches a new offset is scanned and logged
            if shard == 0 {
                for role in ["client", "server"].iter() {
                    let mut seen = vec![false; 728];
                    let mut left = 728;
                    let mut tries = 0u32;
                    while left > 0 && tries < 200_000 {
                        tries += 1;
                        rml_rtmp::verif::set_fill(Some((rng.next(), rng.next() | 1)));
                        let mut h = Handshake::new(if *role == "client" { PeerType::Client } else { PeerType::Server });
                        let b = match catch_unwind(AssertUnwindSafe(|| h.generate_outbound_p0_and_p1())) { Ok(Ok(b)) => b, _ => break };
                        rml_rtmp::verif::set_fill(None);
                        if b.len() != 1 + P { break; }
                        let p1 = &b[1..];
                        let sel = if *role == "client" { &p1[8..12] } else { &p1[772..776] };
                        let off = (sel.iter().map(|x| *x as usize).sum::<usize>()) % 728;
                        if !seen[off] {
                            seen[off] = true;
                            left -= 1;
                            t.emit(&json!({"ev":"HsNew","side":"A","role":role}));
                            t.emit(&p1_facts(p1, role, true, -1));
                            runs += 1;
                        }
                    }
                    rml_rtmp::verif::set_fill(None);
                }
            }
            // one instance, two handshakes in a row: every combination of digest-bearing / digest-less peers, both roles
            for i in 0..(if tier == "thorough" { 400 } else { 48 }) {
                restarted(&mut t, &mut rng, if i % 2 == 0 { "server" } else { "client" }, (i / 2) % 2 == 0, (i / 4) % 2 == 0);
                runs += 1;
            }
            // digest-less peers under fragmentation: the answer must be an exact echo
            for _ in 0..12 {
                calls += exchange_legacy(&mut t, &mut rng);
                runs += 1;
            }
            // received packets: all 728 offsets x both schemes x both roles (+ high preimages), split over shards
            let mut k = 0u64;
            for role in ["server", "client"].iter() {
                for scheme in 0..2u64 {
                    for off in 0..728u32 {
                        for high in [false, true].iter() {
                            if *high && off + 728 > 1020 { continue; }
                            k += 1;
                            if k % nshards != shard { continue; }
                            if tier != "thorough" && *high && off % 4 != 0 { continue; }
                            crafted(&mut t, &mut rng, role, scheme, off, *high, false);
                            runs += 1;
                        }
                    }
                }
                crafted(&mut t, &mut rng, role, 0, 0, false, true);
            }
        }
        _ => panic!("unknown hs kind"),
    }
    t.flush();
    json!({"kind":kind,"runs":runs,"steps":calls,"lines":t.line,"path":path})
}
