//! Drivers for message <-> payload conversion (C13).  Logs for Trace_Msg.tla.
use crate::amf::{gen_value, rv_enc, rv_json, val_json, vals_json, RV};
use crate::util::*;
use bytes::Bytes;
use rml_amf0::Amf0Value;
use rml_rtmp::messages::{MessagePayload, PeerBandwidthLimitType, RtmpMessage, UserControlEventType};
use rml_rtmp::time::RtmpTimestamp;
use serde_json::{json, Value};
use std::panic::{catch_unwind, AssertUnwindSafe};

pub const U32_TABLE: [u32; 12] = [0, 1, 2, 127, 128, 0xFFFF, 0x10000, 0x7FFFFFFF, 0x80000000, 0x80000001, 0xFFFFFFFE, 0xFFFFFFFF];

fn opt(v: Option<u32>) -> Value {
    match v {
        Some(x) => json!([w(x)]),
        None => json!([]),
    }
}

pub fn et_name(e: &UserControlEventType) -> &'static str {
    match e {
        UserControlEventType::StreamBegin => "StreamBegin",
        UserControlEventType::StreamEof => "StreamEof",
        UserControlEventType::StreamDry => "StreamDry",
        UserControlEventType::SetBufferLength => "SetBufferLength",
        UserControlEventType::StreamIsRecorded => "StreamIsRecorded",
        UserControlEventType::PingRequest => "PingRequest",
        UserControlEventType::PingResponse => "PingResponse",
        UserControlEventType::BufferEmpty => "BufferEmpty",
        UserControlEventType::BufferReady => "BufferReady",
    }
}

pub fn msg_json(m: &RtmpMessage) -> Value {
    match m {
        RtmpMessage::Unknown { type_id, data } => json!({"k":"Unknown","ty":type_id,"data":segs(&data[..])}),
        RtmpMessage::Abort { stream_id } => json!({"k":"Abort","v":w(*stream_id)}),
        RtmpMessage::Acknowledgement { sequence_number } => json!({"k":"Ack","v":w(*sequence_number)}),
        RtmpMessage::Amf0Command { command_name, transaction_id, command_object, additional_arguments } => json!({
            "k":"Command","name":segs(command_name.as_bytes()),
            "txn": transaction_id.to_bits().to_be_bytes().to_vec(),
            "obj": val_json(command_object), "args": vals_json(additional_arguments)}),
        RtmpMessage::Amf0Data { values } => json!({"k":"Data","vals":vals_json(values)}),
        RtmpMessage::AudioData { data } => json!({"k":"Audio","data":segs(&data[..])}),
        RtmpMessage::VideoData { data } => json!({"k":"Video","data":segs(&data[..])}),
        RtmpMessage::SetChunkSize { size } => json!({"k":"SetChunkSize","v":w(*size)}),
        RtmpMessage::SetPeerBandwidth { size, limit_type } => json!({"k":"SetPeerBw","v":w(*size),
            "lt": match limit_type { PeerBandwidthLimitType::Hard => "Hard", PeerBandwidthLimitType::Soft => "Soft", PeerBandwidthLimitType::Dynamic => "Dynamic" }}),
        RtmpMessage::UserControl { event_type, stream_id, buffer_length, timestamp } => json!({
            "k":"UserControl","et":et_name(event_type),"sid":opt(*stream_id),"buf":opt(*buffer_length),
            "ts":opt(timestamp.map(|t| t.value))}),
        RtmpMessage::WindowAcknowledgement { size } => json!({"k":"WinAck","v":w(*size)}),
    }
}

const EVENTS: [UserControlEventType; 9] = [
    UserControlEventType::StreamBegin, UserControlEventType::StreamEof, UserControlEventType::StreamDry,
    UserControlEventType::SetBufferLength, UserControlEventType::StreamIsRecorded, UserControlEventType::PingRequest,
    UserControlEventType::PingResponse, UserControlEventType::BufferEmpty, UserControlEventType::BufferReady,
];

fn uc(e: &UserControlEventType, a: u32, b: u32) -> RtmpMessage {
    let e = e.clone();
    match e {
        UserControlEventType::SetBufferLength => RtmpMessage::UserControl { event_type: e, stream_id: Some(a), buffer_length: Some(b), timestamp: None },
        UserControlEventType::PingRequest | UserControlEventType::PingResponse => RtmpMessage::UserControl { event_type: e, stream_id: None, buffer_length: None, timestamp: Some(RtmpTimestamp::new(a)) },
        _ => RtmpMessage::UserControl { event_type: e, stream_id: Some(a), buffer_length: None, timestamp: None },
    }
}

fn gen_bytes(rng: &mut Rng) -> Vec<u8> {
    let n = *rng.pick(&[0usize, 1, 2, 5, 127, 128, 129, 4096, 65535, 65536, 70000]);
    let mut v = vec![rng.next() as u8; n];
    for i in 0..n.min(20) {
        v[i] = rng.next() as u8;
    }
    v
}

fn gen_msg(rng: &mut Rng) -> RtmpMessage {
    let u = |rng: &mut Rng| if rng.chance(3, 4) { *rng.pick(&U32_TABLE) } else { rng.u32() };
    match rng.below(11) {
        0 => RtmpMessage::SetChunkSize { size: u(rng) },
        1 => RtmpMessage::Abort { stream_id: u(rng) },
        2 => RtmpMessage::Acknowledgement { sequence_number: u(rng) },
        3 => RtmpMessage::WindowAcknowledgement { size: u(rng) },
        4 => RtmpMessage::SetPeerBandwidth { size: u(rng), limit_type: rng.pick(&[PeerBandwidthLimitType::Hard, PeerBandwidthLimitType::Soft, PeerBandwidthLimitType::Dynamic]).clone() },
        5 => { let e = rng.pick(&EVENTS).clone(); let a = u(rng); let b = u(rng); uc(&e, a, b) }
        6 => RtmpMessage::AudioData { data: Bytes::from(gen_bytes(rng)) },
        7 => RtmpMessage::VideoData { data: Bytes::from(gen_bytes(rng)) },
        8 => {
            let n = rng.below(4) as usize;
            { let odd = rng.chance(1, 8); RtmpMessage::Amf0Data { values: (0..n).map(|_| gen_value(rng, 2, odd)).collect() } }
        }
        9 => {
            let n = rng.below(4) as usize;
            RtmpMessage::Amf0Command {
                command_name: rng.pick(&["connect", "_result", "onStatus", "", "play", "h\u{e9}"]).to_string(),
                transaction_id: f64::from_bits(if rng.chance(1, 2) { (rng.below(9) as f64).to_bits() } else { rng.next() }),
                command_object: { let odd = rng.chance(1, 8); gen_value(rng, 2, odd) },
                additional_arguments: { let odd = rng.chance(1, 8); (0..n).map(|_| gen_value(rng, 2, odd)).collect() },
            }
        }
        _ => {
            let mut ty = rng.next() as u8;
            while [1u8, 2, 3, 4, 5, 6, 8, 9, 15, 17, 18, 20].contains(&ty) {
                ty = rng.next() as u8;
            }
            RtmpMessage::Unknown { type_id: ty, data: Bytes::from(gen_bytes(rng)) }
        }
    }
}

fn to_payload_event(m: RtmpMessage, rng: &mut Rng) -> Value {
    let mj = msg_json(&m);
    let ts = rng.u32();
    let msid = rng.u32();
    let r = catch_unwind(AssertUnwindSafe(|| MessagePayload::from_rtmp_message(m, RtmpTimestamp::new(ts), msid)));
    match r {
        Ok(Ok(p)) => {
            let kept = p.timestamp.value == ts && p.message_stream_id == msid;
            let b = catch_unwind(AssertUnwindSafe(|| p.to_rtmp_message()));
            let (bres, back) = match b {
                Ok(Ok(m2)) => ("ok".to_string(), msg_json(&m2)),
                Ok(Err(e)) => (format!("err:{:?}", e), json!({})),
                Err(x) => (format!("panic:{}", panic_msg(x)), json!({})),
            };
            json!({"ev":"ToPayload","msg":mj,"res": if kept {"ok"} else {"err:timestamp or stream id not carried over"},
                   "ty":p.type_id,"body":segs(&p.data[..]),"bres":bres,"back":back})
        }
        Ok(Err(e)) => json!({"ev":"ToPayload","msg":mj,"res":format!("err:{:?}", e)}),
        Err(x) => json!({"ev":"ToPayload","msg":mj,"res":format!("panic:{}", panic_msg(x))}),
    }
}

fn to_message_event(class: &str, ty: u8, body: &[u8], intent: Value) -> Value {
    let p = MessagePayload { timestamp: RtmpTimestamp::new(7), type_id: ty, message_stream_id: 3, data: Bytes::from(body.to_vec()) };
    let r = catch_unwind(AssertUnwindSafe(|| p.to_rtmp_message()));
    let (res, msg) = match r {
        Ok(Ok(m)) => ("ok".to_string(), msg_json(&m)),
        Ok(Err(e)) => (format!("err:{:?}", e), json!({})),
        Err(x) => (format!("panic:{}", panic_msg(x)), json!({})),
    };
    json!({"ev":"ToMessage","class":class,"ty":ty,"body":segs(body),"intent":intent,"res":res,"msg":msg})
}

fn be(v: u32) -> Vec<u8> {
    v.to_be_bytes().to_vec()
}

/// Stage S2 for messages: reference bodies printed by TLC from Gen_Msg.tla ({"intent","ty","body"} per line).  Each body is
/// handed to the real to_rtmp_message under its own type id (and under the AMF3 aliases 15 / 17 for data / command bodies);
/// what came back is converted again with the real from_rtmp_message.
pub fn generate_from_file(file: &str, shard: u64, nshards: u64, path: &str) -> Value {
    quiet_panics();
    let mut t = Trace::create(path);
    let mut rng = Rng::new(4242 ^ shard);
    let text = std::fs::read_to_string(file).expect("messages file");
    let mut cases = 0usize;
    let mut n = 0usize;
    for (i, line) in text.lines().enumerate() {
        if line.trim().is_empty() || (i as u64) % nshards != shard {
            continue;
        }
        let v: Value = serde_json::from_str(line).expect("message json");
        let ty = v["ty"].as_u64().unwrap() as u8;
        let body: Vec<u8> = v["body"].as_array().unwrap().iter().map(|b| b.as_u64().unwrap() as u8).collect();
        n += 1;
        let mut variants: Vec<(u8, Vec<u8>)> = vec![(ty, body.clone())];
        if ty == 18 { variants.push((15, body.clone())); }
        if ty == 20 {
            variants.push((17, body.clone()));
            let mut b0 = vec![0u8];
            b0.extend_from_slice(&body);
            variants.push((17, b0));
        }
        for (vty, vbody) in variants {
            t.emit(&to_message_event("conf", vty, &vbody, v["intent"].clone()));
            cases += 1;
            let p = MessagePayload { timestamp: RtmpTimestamp::new(7), type_id: vty, message_stream_id: 3, data: Bytes::from(vbody.clone()) };
            if let Ok(Ok(m2)) = catch_unwind(AssertUnwindSafe(|| p.to_rtmp_message())) {
                t.emit(&to_payload_event(m2, &mut rng));
                cases += 1;
            }
        }
    }
    t.flush();
    json!({"kind":"gen","messages":n,"cases":cases,"runs":cases,"lines":t.line,"path":path})
}

pub fn generate(tier: &str, seed: u64, shard: u64, nshards: u64, path: &str) -> Value {
    quiet_panics();
    let mut t = Trace::create(path);
    let mut rng = Rng::new(seed ^ shard.wrapping_mul(0x6C62272E) ^ 77);
    let scale = if tier == "thorough" { 600 } else { 3 };
    let mut cases = 0usize;
    if shard == 0 {
        // directed: every variant x u32 boundary table, all events, all limit types
        for &v in U32_TABLE.iter() {
            for m in vec![
                RtmpMessage::SetChunkSize { size: v }, RtmpMessage::Abort { stream_id: v },
                RtmpMessage::Acknowledgement { sequence_number: v }, RtmpMessage::WindowAcknowledgement { size: v },
                RtmpMessage::SetPeerBandwidth { size: v, limit_type: PeerBandwidthLimitType::Hard },
                RtmpMessage::SetPeerBandwidth { size: v, limit_type: PeerBandwidthLimitType::Soft },
                RtmpMessage::SetPeerBandwidth { size: v, limit_type: PeerBandwidthLimitType::Dynamic },
            ] {
                t.emit(&to_payload_event(m, &mut rng));
                cases += 1;
            }
            for e in EVENTS.iter() {
                t.emit(&to_payload_event(uc(e, v, v ^ 0x55AA), &mut rng));
                cases += 1;
            }
        }
        // foreign bodies, fixed layouts written by hand from the protocol document
        let codes: [(u16, &str); 9] = [(0, "StreamBegin"), (1, "StreamEof"), (2, "StreamDry"), (3, "SetBufferLength"), (4, "StreamIsRecorded"), (6, "PingRequest"), (7, "PingResponse"), (31, "BufferEmpty"), (32, "BufferReady")];
        for &v in U32_TABLE.iter() {
            if v <= 0x7FFFFFFF {
                t.emit(&to_message_event("conf", 1, &be(v), json!({"k":"SetChunkSize","v":w(v)})));
            } else {
                t.emit(&to_message_event("bigcs", 1, &be(v), json!({})));
            }
            t.emit(&to_message_event("conf", 2, &be(v), json!({"k":"Abort","v":w(v)})));
            t.emit(&to_message_event("conf", 3, &be(v), json!({"k":"Ack","v":w(v)})));
            t.emit(&to_message_event("conf", 5, &be(v), json!({"k":"WinAck","v":w(v)})));
            for (c, n) in [(0u8, "Hard"), (1, "Soft"), (2, "Dynamic")].iter() {
                let mut b = be(v);
                b.push(*c);
                t.emit(&to_message_event("conf", 6, &b, json!({"k":"SetPeerBw","v":w(v),"lt":n})));
            }
            for (c, n) in codes.iter() {
                let mut b = c.to_be_bytes().to_vec();
                b.extend_from_slice(&be(v));
                let intent = match *c {
                    3 => {
                        b.extend_from_slice(&be(!v));
                        json!({"k":"UserControl","et":n,"sid":[w(v)],"buf":[w(!v)],"ts":[]})
                    }
                    6 | 7 => json!({"k":"UserControl","et":n,"sid":[],"buf":[],"ts":[w(v)]}),
                    _ => json!({"k":"UserControl","et":n,"sid":[w(v)],"buf":[],"ts":[]}),
                };
                t.emit(&to_message_event("conf", 4, &b, intent));
            }
            cases += 20;
        }
        // what failed conversions leave behind on this thread must not matter: 300 undecodable nested bodies first
        for i in 0..300usize {
            let mut junk: Vec<u8> = vec![2, 0, 1, b'c', 0, 0, 0, 0, 0, 0, 0, 0, 0];
            for _ in 0..(1 + i % 120) { junk.extend_from_slice(if i % 2 == 0 { &[3, 0, 1, b'a'] } else { &[10, 0, 0, 0, 1] }); }
            if i % 3 == 0 { junk.push(0xFF); }
            let p = MessagePayload { timestamp: RtmpTimestamp::new(1), type_id: if i % 2 == 0 { 20 } else { 18 }, message_stream_id: 1, data: Bytes::from(junk) };
            let _ = catch_unwind(AssertUnwindSafe(|| p.to_rtmp_message()));
        }
        // property names and strings of every length class 2^k - 1, 2^k, 2^k + 1 inside command and data bodies
        for k in 1..=10u32 {
            for d in [-1i64, 0, 1].iter() {
                let l = ((1i64 << k) + d) as usize;
                let mut p = std::collections::HashMap::new();
                p.insert("n".repeat(l), Amf0Value::Utf8String("s".repeat(l)));
                p.insert("tail".to_string(), Amf0Value::StrictArray(vec![]));
                t.emit(&to_payload_event(RtmpMessage::Amf0Data { values: vec![Amf0Value::Utf8String("onMetaData".into()), Amf0Value::Object(p.clone()), Amf0Value::StrictArray(vec![]), Amf0Value::Number(12.5), Amf0Value::Boolean(true)] }, &mut rng));
                t.emit(&to_payload_event(RtmpMessage::Amf0Command { command_name: "c".repeat(l), transaction_id: l as f64, command_object: Amf0Value::Object(p), additional_arguments: vec![Amf0Value::StrictArray(vec![]), Amf0Value::Null] }, &mut rng));
                cases += 2;
            }
        }
        // a refused message (a value the format cannot express AFTER values it can) must leave nothing behind: the messages
        // converted next on the same thread carry exactly their own bodies
        for round in 0..3 {
            let long = "k".repeat(70000);
            let refused = match round {
                0 => RtmpMessage::Amf0Command { command_name: "publish".into(), transaction_id: 4.0, command_object: Amf0Value::Null,
                                                additional_arguments: vec![Amf0Value::Utf8String(long.clone()), Amf0Value::Utf8String("live".into())] },
                1 => RtmpMessage::Amf0Data { values: vec![Amf0Value::Utf8String("@setDataFrame".into()), Amf0Value::Number(1.0), Amf0Value::Utf8String(long.clone())] },
                _ => { let mut p = std::collections::HashMap::new(); p.insert(long.clone(), Amf0Value::Null);
                       RtmpMessage::Amf0Command { command_name: "x".into(), transaction_id: 0.0, command_object: Amf0Value::Object(p), additional_arguments: vec![] } }
            };
            t.emit(&to_payload_event(refused, &mut rng));
            t.emit(&to_payload_event(RtmpMessage::Amf0Data { values: vec![Amf0Value::Utf8String("onMetaData".into()), Amf0Value::Number(2.0)] }, &mut rng));
            t.emit(&to_payload_event(RtmpMessage::Amf0Command { command_name: "createStream".into(), transaction_id: 2.0, command_object: Amf0Value::Null, additional_arguments: vec![] }, &mut rng));
            cases += 3;
        }
        // arrays around 1024 elements inside data and command bodies
        for n in [1023usize, 1024, 1025].iter() {
            let arr = Amf0Value::StrictArray((0..*n).map(|i| Amf0Value::Boolean(i % 3 == 0)).collect());
            t.emit(&to_payload_event(RtmpMessage::Amf0Data { values: vec![Amf0Value::Utf8String("d".into()), arr.clone(), Amf0Value::Null] }, &mut rng));
            t.emit(&to_payload_event(RtmpMessage::Amf0Command { command_name: "c".into(), transaction_id: 1.0, command_object: Amf0Value::Null, additional_arguments: vec![arr, Amf0Value::Number(7.0)] }, &mut rng));
            cases += 2;
        }
        // all 256 type ids with bodies: unknown ids must pass through untouched
        for ty in 0..=255u8 {
            if [1u8, 2, 3, 4, 5, 6, 8, 9, 15, 17, 18, 20].contains(&ty) {
                continue;
            }
            for body in [vec![], vec![1u8, 2, 3], gen_bytes(&mut rng)].iter() {
                t.emit(&to_message_event("unknown", ty, body, json!({})));
                cases += 1;
            }
        }
    }
    for _ in 0..(120 * scale / nshards as usize + 1) {
        let m = gen_msg(&mut rng);
        t.emit(&to_payload_event(m, &mut rng));
        cases += 1;
    }
    if shard == 0 {
        // data bodies whose FIRST value is a number whose leading bytes look like markers (00 02 .., 00 00 .., 00 0A ..):
        // ids 15 and 18 carry exactly the AMF0 sequence, nothing is to be skipped in front of it
        for lead in [0x00u8, 0x02, 0x03, 0x05, 0x08, 0x0A, 0x0C].iter() {
            for ty in [15u8, 18].iter() {
                let bits = [*lead, 0x00, 0x05, b'h', b'e', b'l', b'l', b'o'];
                let vals = vec![RV::Num(bits), RV::Str(b"x".to_vec())];
                let mut body = Vec::new();
                for v in &vals { rv_enc(v, &mut body); }
                let intent = json!({"k":"Data","vals": vals.iter().map(rv_json).collect::<Vec<_>>()});
                t.emit(&to_message_event("conf", *ty, &body, intent));
                cases += 1;
            }
        }
    }
    // foreign AMF0 bodies under ids 18/15 and 20/17 (with and without the leading zero)
    for _ in 0..(40 * scale / nshards as usize + 1) {
        let n = rng.below(4) as usize;
        let vals: Vec<RV> = (0..n).map(|_| gen_rv_simple(&mut rng)).collect();
        let mut body = Vec::new();
        for v in &vals {
            rv_enc(v, &mut body);
        }
        let intent = json!({"k":"Data","vals": vals.iter().map(rv_json).collect::<Vec<_>>()});
        t.emit(&to_message_event("conf", *rng.pick(&[18u8, 15]), &body, intent));
        let name = rng.pick(&["connect", "_error", "publish", "x"]).as_bytes().to_vec();
        let txn = (rng.below(6) as f64).to_bits().to_be_bytes();
        let obj = gen_rv_simple(&mut rng);
        let mut cb = Vec::new();
        rv_enc(&RV::Str(name.clone()), &mut cb);
        rv_enc(&RV::Num(txn), &mut cb);
        rv_enc(&obj, &mut cb);
        for v in &vals {
            rv_enc(v, &mut cb);
        }
        let intent = json!({"k":"Command","name":segs(&name),"txn":txn.to_vec(),"obj":rv_json(&obj),
                            "args": vals.iter().map(rv_json).collect::<Vec<_>>()});
        let ty = *rng.pick(&[20u8, 17, 17]);
        let body = if ty == 17 && rng.chance(1, 2) { let mut b = vec![0u8]; b.extend_from_slice(&cb); b } else { cb };
        t.emit(&to_message_event("conf", ty, &body, intent));
        // audio / video
        let d = gen_bytes(&mut rng);
        t.emit(&to_message_event("conf", 8, &d, json!({"k":"Audio","data":segs(&d)})));
        t.emit(&to_message_event("conf", 9, &d, json!({"k":"Video","data":segs(&d)})));
        cases += 4;
    }
    t.flush();
    json!({"kind":"msg","runs":cases,"lines":t.line,"path":path})
}

fn gen_rv_simple(rng: &mut Rng) -> RV {
    match rng.below(7) {
        0 => RV::Num((rng.below(1000) as f64).to_bits().to_be_bytes()),
        1 => RV::Bool(rng.chance(1, 2), 1).fix(),
        2 => RV::Str(rng.pick(&["live", "", "stream key", "\u{e9}"]).as_bytes().to_vec()),
        3 => RV::Null,
        4 => RV::Undef,
        5 => RV::Obj(vec![(b"code".to_vec(), RV::Str(b"NetStream.Play.Start".to_vec())), (b"n".to_vec(), RV::Num(2.5f64.to_bits().to_be_bytes()))],
                     if rng.chance(1, 3) { Some(2) } else { None }),
        _ => RV::Arr(vec![RV::Null, RV::Num(1f64.to_bits().to_be_bytes())]),
    }
}

trait Fix {
    fn fix(self) -> Self;
}
impl Fix for RV {
    fn fix(self) -> RV {
        match self {
            RV::Bool(false, _) => RV::Bool(false, 0),
            x => x,
        }
    }
}
#[allow(dead_code)]
fn _unused(_: &Amf0Value) {}
