//! vharness: drives the real rust-media-libs code and records event logs for the TLA+ trace
//! specifications under /verif/spec.  It records; it does not judge.
mod amf;
mod chunk;
mod client;
mod clock;
mod hs;
mod interop;
mod sha;
mod skel;
mod msg;
mod pair;
mod res;
mod server;
mod sess;
mod util;

use util::parse_args;

#[global_allocator]
static ALLOC: res::Counting = res::Counting;

fn main() {
    let argv: Vec<String> = std::env::args().collect();
    if argv.len() < 2 {
        eprintln!("usage: vharness <suite> ...");
        std::process::exit(2);
    }
    let a = parse_args(&argv[2..]);
    match argv[1].as_str() {
        "chunk" => {
            // vharness chunk <kind> <shard> <nshards> --tier T --seed S --out FILE
            let kind = a.rest[0].clone();
            let shard: u64 = a.rest.get(1).map(|s| s.parse().unwrap()).unwrap_or(0);
            let nshards: u64 = a.rest.get(2).map(|s| s.parse().unwrap()).unwrap_or(1);
            // vharness chunk gen <shard> <nshards> <paths.ndjson> --out FILE : behaviours printed by TLC from Gen_Chunk.tla
            let info = if kind == "gen" { chunk::generate_from_paths(&a.rest[3], a.seed, shard, nshards, &a.out) }
                       else if kind == "genrx" { chunk::generate_rx_from_paths(&a.rest[3], a.seed, shard, nshards, &a.out) }
                       else { chunk::generate(&kind, &a.tier, a.seed, shard, nshards, &a.out) };
            println!("{}", info);
        }
        "amf" => {
            let kind = a.rest[0].clone();
            let shard: u64 = a.rest.get(1).map(|s| s.parse().unwrap()).unwrap_or(0);
            let nshards: u64 = a.rest.get(2).map(|s| s.parse().unwrap()).unwrap_or(1);
            // vharness amf gen <shard> <nshards> <encodings.ndjson> --out FILE : reference encodings printed by TLC (Gen_Amf0.tla)
            let info = if kind == "gen" { amf::generate_from_file(&a.rest[3], shard, nshards, &a.out) }
                       else { amf::generate(&kind, &a.tier, a.seed, shard, nshards, &a.out) };
            println!("{}", info);
        }
        "msg" if a.rest.get(0).map(|s| s == "gen").unwrap_or(false) => {
            // vharness msg gen <shard> <nshards> <messages.ndjson> --out FILE : reference bodies printed by TLC (Gen_Msg.tla)
            let shard: u64 = a.rest.get(1).map(|s| s.parse().unwrap()).unwrap_or(0);
            let nshards: u64 = a.rest.get(2).map(|s| s.parse().unwrap()).unwrap_or(1);
            let info = msg::generate_from_file(&a.rest[3], shard, nshards, &a.out);
            println!("{}", info);
        }
        "msg" => {
            let shard: u64 = a.rest.get(0).map(|s| s.parse().unwrap()).unwrap_or(0);
            let nshards: u64 = a.rest.get(1).map(|s| s.parse().unwrap()).unwrap_or(1);
            let info = msg::generate(&a.tier, a.seed, shard, nshards, &a.out);
            println!("{}", info);
        }
        "server" => {
            let kind = a.rest[0].clone();
            let shard: u64 = a.rest.get(1).map(|s| s.parse().unwrap()).unwrap_or(0);
            let nshards: u64 = a.rest.get(2).map(|s| s.parse().unwrap()).unwrap_or(1);
            let info = server::generate(&kind, &a.tier, a.seed, shard, nshards, &a.out);
            println!("{}", info);
        }
        "client" => {
            let kind = a.rest[0].clone();
            let shard: u64 = a.rest.get(1).map(|s| s.parse().unwrap()).unwrap_or(0);
            let nshards: u64 = a.rest.get(2).map(|s| s.parse().unwrap()).unwrap_or(1);
            let info = client::generate(&kind, &a.tier, a.seed, shard, nshards, &a.out);
            println!("{}", info);
        }
        "clock" => {
            let info = clock::generate(&a.tier, a.seed, &a.out);
            println!("{}", info);
        }
        "hs" => {
            let kind = a.rest[0].clone();
            let shard: u64 = a.rest.get(1).map(|s| s.parse().unwrap()).unwrap_or(0);
            let nshards: u64 = a.rest.get(2).map(|s| s.parse().unwrap()).unwrap_or(1);
            let info = hs::generate(&kind, &a.tier, a.seed, shard, nshards, &a.out);
            println!("{}", info);
        }
        "res" => {
            let kind = a.rest[0].clone();
            let shard: u64 = a.rest.get(1).map(|s| s.parse().unwrap()).unwrap_or(0);
            let nshards: u64 = a.rest.get(2).map(|s| s.parse().unwrap()).unwrap_or(1);
            let info = res::parent(&kind, &a.tier, a.seed, shard, nshards, &a.out);
            println!("{}", info);
        }
        "res-child" => {
            res::child(&argv[2], argv[3].parse().unwrap_or(0));
        }
        "interop-debug" => {
            // vharness interop-debug <ccs> <cwin> <scs> <swin> <mode> <seed> : one dialogue, log on stdout
            let g = |i: usize| -> u64 { a.rest.get(i).map(|s| s.parse().unwrap()).unwrap_or(0) };
            let mut ccfg = rml_rtmp::sessions::ClientSessionConfig::new();
            let mut scfg = rml_rtmp::sessions::ServerSessionConfig::new();
            ccfg.chunk_size = g(0) as u32; ccfg.window_ack_size = g(1) as u32;
            scfg.chunk_size = g(2) as u32; scfg.window_ack_size = g(3) as u32;
            let mut rng = util::Rng::new(g(5));
            let (sent, log, good) = interop::exchange(&mut rng, "quick", ccfg, scfg, g(4));
            for e in &log { let s = e.to_string(); println!("{}", &s[..s.len().min(300)]); }
            println!("sent={} good={}", sent, good);
        }
        "interop" => {
            let shard: u64 = a.rest.get(1).map(|s| s.parse().unwrap()).unwrap_or(0);
            let nshards: u64 = a.rest.get(2).map(|s| s.parse().unwrap()).unwrap_or(1);
            let info = interop::generate(&a.tier, a.seed, shard, nshards, &a.out);
            println!("{}", info);
        }
        "pair" => {
            let shard: u64 = a.rest.get(1).map(|s| s.parse().unwrap()).unwrap_or(0);
            let nshards: u64 = a.rest.get(2).map(|s| s.parse().unwrap()).unwrap_or(1);
            let info = pair::generate(&a.tier, a.seed, shard, nshards, &a.out);
            println!("{}", info);
        }
        "pair-debug" => {
            pair::debug(&argv[2], argv[3].parse().unwrap(), &argv[4]);
        }
        "skel" => {
            // vharness skel <server|client> <shard> <nshards> <paths.json> --out FILE
            let side = a.rest[0].clone();
            let shard: u64 = a.rest.get(1).map(|s| s.parse().unwrap()).unwrap_or(0);
            let nshards: u64 = a.rest.get(2).map(|s| s.parse().unwrap()).unwrap_or(1);
            let info = skel::generate(&side, &a.rest[3], shard, nshards, &a.out);
            println!("{}", info);
        }
        x => {
            eprintln!("unknown suite {}", x);
            std::process::exit(2);
        }
    }
}
