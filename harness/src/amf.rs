//! Drivers for the AMF0 codec (C04, C12).  Logs for Trace_Amf0.tla.
use crate::util::*;
use rml_amf0::{deserialize, serialize, Amf0Value};
use serde_json::{json, Value};
use std::collections::HashMap;
use std::io::Cursor;
use std::panic::{catch_unwind, AssertUnwindSafe};

pub fn val_json(v: &Amf0Value) -> Value {
    match v {
        Amf0Value::Number(n) => json!({"t":"n","b": n.to_bits().to_be_bytes().to_vec()}),
        Amf0Value::Boolean(b) => json!({"t":"b","v":b}),
        Amf0Value::Utf8String(s) => json!({"t":"s","s":segs(s.as_bytes())}),
        Amf0Value::Object(p) => {
            // objects are unordered maps: log the properties sorted by name so that two logs of the
            // same value are identical (HashMap iteration order is random per instance)
            let mut keys: Vec<&String> = p.keys().collect();
            keys.sort();
            let props: Vec<Value> = keys.iter().map(|k| json!([segs(k.as_bytes()), val_json(&p[*k])])).collect();
            json!({"t":"o","p":props})
        }
        Amf0Value::StrictArray(e) => json!({"t":"a","e": e.iter().map(val_json).collect::<Vec<_>>()}),
        Amf0Value::Null => json!({"t":"z"}),
        Amf0Value::Undefined => json!({"t":"u"}),
    }
}
pub fn vals_json(vs: &[Amf0Value]) -> Value {
    Value::Array(vs.iter().map(val_json).collect())
}

const NUM_BITS: [u64; 14] = [
    0, 0x8000000000000000, 0x3FF0000000000000, 0xBFF0000000000000, 0x7FF0000000000000, 0xFFF0000000000000,
    0x7FF8000000000000, 0x7FF8000000000001, 0xFFF8000000000000, 0x7FF0000000000001, 0x0000000000000001,
    0x000FFFFFFFFFFFFF, 0x7FEFFFFFFFFFFFFF, 0x40C0000000000000,
];

fn gen_string(rng: &mut Rng, long_ok: bool) -> String {
    let pick = rng.below(if long_ok { 14 } else { 9 });
    match pick {
        0 => String::new(),
        1 => "a".to_string(),
        2 => "onMetaData".to_string(),
        3 => "h\u{e9}llo w\u{f6}rld".to_string(),
        4 => "\u{1F600}\u{10FFFF}\u{0}z".to_string(),
        5 | 6 | 7 | 8 => {
            let n = rng.range(1, 12) as usize;
            (0..n).map(|_| (b'a' + rng.below(26) as u8) as char).collect()
        }
        9 => "x".repeat(65534),
        10 => "y".repeat(65535),
        11 => "z".repeat(65536),
        12 => "\u{e9}".repeat(32768), // 65536 bytes, 32768 chars
        _ => "w".repeat(70000),
    }
}

fn gen_name(rng: &mut Rng, odd_ok: bool) -> String {
    if odd_ok && rng.chance(1, 40) {
        match rng.below(4) {
            0 => String::new(),
            1 => "n".repeat(65535),
            2 => "n".repeat(65536),
            _ => "n".repeat(65537 + rng.below(5) as usize),
        }
    } else {
        let base = ["app", "code", "level", "description", "width", "height", "k", "\u{fc}ber", "objectEncoding"];
        let mut s = rng.pick(&base).to_string();
        if rng.chance(1, 2) {
            s.push_str(&format!("{}", rng.below(50)));
        }
        s
    }
}

pub fn gen_value(rng: &mut Rng, depth: u32, odd_ok: bool) -> Amf0Value {
    let top = if depth == 0 { 5 } else { 8 };
    match rng.below(top) {
        0 => Amf0Value::Number(f64::from_bits(if rng.chance(2, 3) { *rng.pick(&NUM_BITS) } else { rng.next() })),
        1 => Amf0Value::Boolean(rng.chance(1, 2)),
        2 => { let l = odd_ok && rng.chance(1, 6); Amf0Value::Utf8String(gen_string(rng, l)) }
        3 => Amf0Value::Null,
        4 => Amf0Value::Undefined,
        5 | 6 => {
            let n = *rng.pick(&[0usize, 1, 1, 2, 3, 5]);
            let mut p = HashMap::new();
            for _ in 0..n {
                p.insert(gen_name(rng, odd_ok), gen_value(rng, depth - 1, odd_ok));
            }
            Amf0Value::Object(p)
        }
        _ => {
            let n = *rng.pick(&[0usize, 1, 1, 2, 3, 7]);
            Amf0Value::StrictArray((0..n).map(|_| gen_value(rng, depth - 1, odd_ok)).collect())
        }
    }
}

fn nest(rng: &mut Rng, depth: u32) -> Amf0Value {
    // a chain of depth containers around a leaf, mixing arrays and objects
    let mut v = Amf0Value::Number(1.5);
    for i in 0..depth {
        v = if rng.chance(1, 2) {
            Amf0Value::StrictArray(vec![v])
        } else {
            let mut p = HashMap::new();
            p.insert(format!("p{}", i), v);
            Amf0Value::Object(p)
        };
    }
    v
}

/// A reader that hands out its bytes in short pieces (1, 2, 3, 7, 1, ... bytes per call): the decoder takes any `Read`, and a
/// `Read` may return fewer bytes than asked for at any time.
struct ShortReader<'a> {
    cur: Cursor<&'a [u8]>,
    k: usize,
}
impl<'a> std::io::Read for ShortReader<'a> {
    fn read(&mut self, buf: &mut [u8]) -> std::io::Result<usize> {
        const STEPS: [usize; 6] = [1, 2, 3, 7, 1, 64];
        let n = STEPS[self.k % STEPS.len()].min(buf.len());
        self.k += 1;
        self.cur.read(&mut buf[..n])
    }
}

fn lib_decode(bytes: &[u8]) -> (String, Vec<Amf0Value>, usize) {
    // every third input (by length) is read through the short reader; results must not depend on that
    if bytes.len() % 3 == 1 && bytes.len() < 5000 {
        let mut sr = ShortReader { cur: Cursor::new(bytes), k: bytes.len() };
        let r = catch_unwind(AssertUnwindSafe(|| deserialize(&mut sr)));
        let left = bytes.len() - (sr.cur.position() as usize).min(bytes.len());
        return match r {
            Ok(Ok(v)) => ("ok".to_string(), v, left),
            Ok(Err(e)) => (format!("err:{:?}", e), vec![], left),
            Err(p) => (format!("panic:{}", panic_msg(p)), vec![], left),
        };
    }
    let mut cur = Cursor::new(bytes);
    let r = catch_unwind(AssertUnwindSafe(|| deserialize(&mut cur)));
    let left = bytes.len() - (cur.position() as usize).min(bytes.len());
    match r {
        Ok(Ok(v)) => ("ok".to_string(), v, left),
        Ok(Err(e)) => (format!("err:{:?}", e), vec![], left),
        Err(p) => (format!("panic:{}", panic_msg(p)), vec![], left),
    }
}

fn enc_event(vals: &Vec<Amf0Value>) -> Value {
    let r = catch_unwind(AssertUnwindSafe(|| serialize(vals)));
    let (res, bytes) = match r {
        Ok(Ok(b)) => ("ok".to_string(), b),
        Ok(Err(e)) => (format!("err:{:?}", e), vec![]),
        Err(p) => (format!("panic:{}", panic_msg(p)), vec![]),
    };
    let mut ev = json!({"ev":"Enc","vals":vals_json(vals),"res":res,"bytes":segs(&bytes)});
    if res == "ok" {
        let (dres, dvals, dleft) = lib_decode(&bytes);
        ev["dres"] = json!(dres);
        ev["dvals"] = vals_json(&dvals);
        ev["dleft"] = json!(dleft);
    }
    ev
}

// ---------------------------------------------------------------------------------------------
// harness-side reference trees and a plain encoder for the decoder direction

#[derive(Clone)]
pub enum RV {
    Num([u8; 8]),
    Bool(bool, u8),
    Str(Vec<u8>),
    Obj(Vec<(Vec<u8>, RV)>, Option<u32>), // Some(count) => ECMA array with that count field
    Arr(Vec<RV>),
    Null,
    Undef,
}

pub fn rv_json(v: &RV) -> Value {
    match v {
        RV::Num(b) => json!({"t":"n","b": b.to_vec()}),
        RV::Bool(b, _) => json!({"t":"b","v":b}),
        RV::Str(s) => json!({"t":"s","s":segs(s)}),
        RV::Obj(p, _) => json!({"t":"o","p": p.iter().map(|(k, v)| json!([segs(k), rv_json(v)])).collect::<Vec<_>>()}),
        RV::Arr(e) => json!({"t":"a","e": e.iter().map(rv_json).collect::<Vec<_>>()}),
        RV::Null => json!({"t":"z"}),
        RV::Undef => json!({"t":"u"}),
    }
}

pub fn rv_enc(v: &RV, out: &mut Vec<u8>) {
    match v {
        RV::Num(b) => {
            out.push(0);
            out.extend_from_slice(b);
        }
        RV::Bool(_, byte) => {
            out.push(1);
            out.push(*byte);
        }
        RV::Str(s) => {
            out.push(2);
            out.extend_from_slice(&(s.len() as u16).to_be_bytes());
            out.extend_from_slice(s);
        }
        RV::Obj(p, ecma) => {
            match ecma {
                Some(c) => {
                    out.push(8);
                    out.extend_from_slice(&c.to_be_bytes());
                }
                None => out.push(3),
            }
            for (k, v) in p {
                out.extend_from_slice(&(k.len() as u16).to_be_bytes());
                out.extend_from_slice(k);
                rv_enc(v, out);
            }
            out.extend_from_slice(&[0, 0, 9]);
        }
        RV::Arr(e) => {
            out.push(10);
            out.extend_from_slice(&(e.len() as u32).to_be_bytes());
            for v in e {
                rv_enc(v, out);
            }
        }
        RV::Null => out.push(5),
        RV::Undef => out.push(6),
    }
}

fn gen_rv(rng: &mut Rng, depth: u32) -> RV {
    let top = if depth == 0 { 5 } else { 8 };
    match rng.below(top) {
        0 => RV::Num((if rng.chance(2, 3) { *rng.pick(&NUM_BITS) } else { rng.next() }).to_be_bytes()),
        1 => {
            let b = rng.chance(1, 2);
            let byte = if !b { 0 } else { *rng.pick(&[1u8, 1, 2, 0x80, 0xFF, 9]) };
            RV::Bool(b, byte)
        }
        2 => RV::Str(gen_string(rng, false).into_bytes()),
        3 => RV::Null,
        4 => RV::Undef,
        5 | 6 => {
            let n = *rng.pick(&[0usize, 1, 2, 3, 3]);
            let mut p: Vec<(Vec<u8>, RV)> = Vec::new();
            for _ in 0..n {
                let name = gen_name(rng, false).into_bytes();
                if !p.iter().any(|(k, _)| *k == name) {
                    p.push((name, gen_rv(rng, depth - 1)));
                }
            }
            // the count field of an ECMA array is advisory: any value, in particular one smaller than the number of pairs
            let ecma = if rng.chance(1, 3) { Some(*rng.pick(&[0u32, p.len() as u32, (p.len() as u32).saturating_sub(1), 1, 2, 0xFFFFFFFF, 1 << 31, 7])) } else { None };
            RV::Obj(p, ecma)
        }
        _ => {
            let n = *rng.pick(&[0usize, 1, 2, 3, 6]);
            RV::Arr((0..n).map(|_| gen_rv(rng, depth - 1)).collect())
        }
    }
}

fn dec_event(class: &str, bytes: &[u8], intent: &[RV]) -> Value {
    let (res, vals, left) = lib_decode(bytes);
    json!({"ev":"Dec","class":class,"bytes":segs(bytes),
           "intent": intent.iter().map(rv_json).collect::<Vec<_>>(),
           "res":res,"vals":vals_json(&vals),"left":left})
}

const UNSUPPORTED: [u8; 16] = [4, 7, 11, 12, 13, 14, 15, 16, 17, 18, 0x20, 0x7F, 0x80, 0xC3, 0xFE, 0xFF];

/// Stage S2 for AMF0: reference encodings printed by TLC from Gen_Amf0.tla (one JSON byte array per line).  Each is
/// decoded by the real decoder (class ref), what came out is re-encoded by the real encoder (Enc), every strict prefix is
/// decoded (class refcut, `full` = the whole encoding) and so are three bad-marker variants (class bad).
pub fn generate_from_file(file: &str, shard: u64, nshards: u64, path: &str) -> Value {
    quiet_panics();
    let mut t = Trace::create(path);
    let text = std::fs::read_to_string(file).expect("encodings file");
    let mut cases = 0usize;
    let mut n = 0usize;
    for (i, line) in text.lines().enumerate() {
        if line.trim().is_empty() || (i as u64) % nshards != shard {
            continue;
        }
        let bytes: Vec<u8> = serde_json::from_str::<Vec<u64>>(line).expect("byte array").into_iter().map(|b| b as u8).collect();
        n += 1;
        let (res, vals, left) = lib_decode(&bytes);
        t.emit(&json!({"ev":"Dec","class":"ref","bytes":segs(&bytes),"intent":[],"res":res,"vals":vals_json(&vals),"left":left}));
        cases += 1;
        if res == "ok" {
            t.emit(&enc_event(&vals));
            cases += 1;
        }
        for k in 0..bytes.len() {
            let (res, vals, left) = lib_decode(&bytes[..k]);
            t.emit(&json!({"ev":"Dec","class":"refcut","bytes":segs(&bytes[..k]),"full":segs(&bytes),"intent":[],"res":res,"vals":vals_json(&vals),"left":left}));
            cases += 1;
        }
        if !bytes.is_empty() {
            for m in [UNSUPPORTED[n % 16], UNSUPPORTED[(n / 16 + 5) % 16]].iter() {
                let mut b = bytes.clone();
                b[0] = *m;
                t.emit(&dec_event("bad", &b, &[]));
                cases += 1;
            }
        }
    }
    t.flush();
    json!({"kind":"gen","encodings":n,"cases":cases,"runs":cases,"lines":t.line,"path":path})
}

pub fn generate(kind: &str, tier: &str, seed: u64, shard: u64, nshards: u64, path: &str) -> Value {
    quiet_panics();
    let mut t = Trace::create(path);
    let mut rng = Rng::new(seed ^ shard.wrapping_mul(0xA24BAED4) ^ if kind == "enc" { 5 } else { 6 });
    let scale = if tier == "thorough" { 300 } else { 2 };
    let mut cases = 0usize;
    match kind {
        "enc" => {
            // directed: every number pattern, boundary strings, deep nesting, odd names (shard 0 only)
            if shard == 0 {
                for b in NUM_BITS.iter() {
                    t.emit(&enc_event(&vec![Amf0Value::Number(f64::from_bits(*b))]));
                }
                for n in [0usize, 1, 65534, 65535, 65536, 70000].iter() {
                    t.emit(&enc_event(&vec![Amf0Value::Utf8String("s".repeat(*n))]));
                    let mut p = HashMap::new();
                    p.insert("k".repeat(*n), Amf0Value::Boolean(true));
                    t.emit(&enc_event(&vec![Amf0Value::Object(p)]));
                    let mut p = HashMap::new();
                    p.insert("first".to_string(), Amf0Value::Null);
                    p.insert("k".repeat(*n), Amf0Value::Number(2.0));
                    t.emit(&enc_event(&vec![Amf0Value::Number(1.0), Amf0Value::Object(p), Amf0Value::Utf8String("after".into())]));
                }
                for d in [1u32, 2, 3, 8, 16].iter() {
                    t.emit(&enc_event(&vec![nest(&mut rng, *d)]));
                }
                t.emit(&enc_event(&vec![]));
                t.emit(&enc_event(&vec![Amf0Value::StrictArray(vec![Amf0Value::Null; 400])]));
                // what FAILED decodes leave behind on this thread must not matter: 300 truncated / too deep / garbage inputs first
                for i in 0..300usize {
                    let mut junk: Vec<u8> = Vec::new();
                    for _ in 0..(1 + i % 120) { junk.extend_from_slice(if i % 2 == 0 { &[3, 0, 1, b'a'] } else { &[10, 0, 0, 0, 1] }); }
                    if i % 3 == 0 { junk.push(0xFF); }
                    let _ = lib_decode(&junk);
                    let _ = catch_unwind(AssertUnwindSafe(|| serialize(&vec![Amf0Value::Number(1.0), Amf0Value::Utf8String("q".repeat(65536 + i))])));
                }
                // text longer than the usual buffer sizes made of two- and three-byte characters at every alignment (a character
                // may straddle any 1 024 / 4 096 / 8 192-byte boundary)
                for pad in 0..3usize {
                    for (ch, n) in [("\u{e9}", 600usize), ("\u{e9}", 2100), ("\u{e9}", 4200), ("\u{20ac}", 1400), ("\u{20ac}", 2800), ("\u{1F600}", 2100)].iter() {
                        let st = format!("{}{}", "x".repeat(pad), ch.repeat(*n));
                        let mut p = HashMap::new();
                        p.insert(st.clone(), Amf0Value::Utf8String(st.clone()));
                        t.emit(&enc_event(&vec![Amf0Value::Utf8String(st), Amf0Value::Object(p)]));
                    }
                }
                // property names and strings of every length class 2^k - 1, 2^k, 2^k + 1
                for k in 1..=10u32 {
                    for d in [-1i64, 0, 1].iter() {
                        let l = ((1i64 << k) + d) as usize;
                        let mut p = HashMap::new();
                        p.insert("n".repeat(l), Amf0Value::Utf8String("s".repeat(l)));
                        p.insert(format!("{}{}", "m".repeat(l), "\u{e9}"), Amf0Value::Number(l as f64));
                        t.emit(&enc_event(&vec![Amf0Value::Object(p), Amf0Value::Utf8String("t".repeat(l + 1))]));
                    }
                }
                // arrays around powers of two (a count is a number like any other: nothing may be capped or truncated)
                for n in [255usize, 256, 257, 1024, 1025].iter() {
                    t.emit(&enc_event(&vec![Amf0Value::StrictArray(vec![Amf0Value::Boolean(true); *n]), Amf0Value::Number(1.0)]));
                }
                // larger arrays are too slow for the TLA+ reference decoder: only the round trip is recorded (compared in Rust)
                // (every power of two up to 2^17, minus / plus one: a count is a number like any other)
                let mut counts: Vec<usize> = vec![100000];
                for k in 1..=17u32 { for d in [-1i64, 0, 1].iter() { let c = (1i64 << k) + d; if c > 1100 || k <= 3 { counts.push(c as usize); } } }
                for n in counts.iter() {
                    let vals = vec![Amf0Value::StrictArray((0..*n).map(|i| Amf0Value::Number(i as f64)).collect()), Amf0Value::Null];
                    let (res, dres, same, dtop) = match catch_unwind(AssertUnwindSafe(|| serialize(&vals))) {
                        Ok(Ok(b)) => { let (dres, dvals, _) = lib_decode(&b); let same = dvals == vals; ("ok".to_string(), dres, same, dvals.len()) }
                        Ok(Err(e)) => (format!("err:{:?}", e), "".to_string(), false, 0),
                        Err(p) => (format!("panic:{}", panic_msg(p)), "".to_string(), false, 0),
                    };
                    t.emit(&json!({"ev":"EncBig","n":n,"res":res,"dres":dres,"same":same,"dtop":dtop}));
                }
                // objects with many properties, and many values in one sequence (round trip only, compared in Rust)
                for n in [255usize, 256, 257, 1023, 1024, 1025, 4096, 4097, 65535, 65536, 65537].iter() {
                    let mut p = HashMap::new();
                    for i in 0..*n { p.insert(format!("p{}", i), Amf0Value::Number(i as f64)); }
                    let flat: Vec<Amf0Value> = (0..*n).map(|i| if i % 2 == 0 { Amf0Value::Boolean(i % 4 == 0) } else { Amf0Value::Utf8String(format!("{}", i)) }).collect();
                    for vals in [vec![Amf0Value::Object(p), Amf0Value::Undefined], flat].iter() {
                        let (res, dres, same, dtop) = match catch_unwind(AssertUnwindSafe(|| serialize(vals))) {
                            Ok(Ok(b)) => { let (dres, dvals, _) = lib_decode(&b); let same = &dvals == vals; ("ok".to_string(), dres, same, dvals.len()) }
                            Ok(Err(e)) => (format!("err:{:?}", e), "".to_string(), false, 0),
                            Err(p) => (format!("panic:{}", panic_msg(p)), "".to_string(), false, 0),
                        };
                        t.emit(&json!({"ev":"EncBig","n":n,"res":res,"dres":dres,"same":same,"dtop":dtop}));
                    }
                }
                // the same container value several times in one sequence and inside another container
                {
                    let mut p = HashMap::new();
                    p.insert("video".to_string(), Amf0Value::StrictArray(vec![Amf0Value::Number(2.0), Amf0Value::Utf8String("x".into())]));
                    let v = Amf0Value::StrictArray(vec![Amf0Value::Number(2.0), Amf0Value::Utf8String("x".into())]);
                    let w = Amf0Value::StrictArray(vec![Amf0Value::Null]);
                    t.emit(&enc_event(&vec![Amf0Value::Utf8String("s".into()), Amf0Value::Object(p.clone()), w.clone(), v.clone()]));
                    t.emit(&enc_event(&vec![Amf0Value::StrictArray(vec![v.clone(), w.clone(), v.clone()])]));
                    t.emit(&enc_event(&vec![Amf0Value::Object(p.clone()), Amf0Value::Object(p.clone()), v.clone(), v.clone(), w.clone(), w]));
                }
                // strings and names with NUL / whitespace at either end (nothing may be trimmed)
                for st in ["\u{0}", "a\u{0}", "\u{0}a", "a\u{0}\u{0}", " a ", "a\n", "\t", "\u{feff}a", "a\u{0}b"].iter() {
                    let mut p = HashMap::new();
                    p.insert(st.to_string(), Amf0Value::Utf8String(st.to_string()));
                    t.emit(&enc_event(&vec![Amf0Value::Utf8String(st.to_string()), Amf0Value::Object(p), Amf0Value::StrictArray(vec![Amf0Value::Utf8String(st.to_string())])]));
                }
                // long flat sequences of EMPTY containers followed by a nested one (depth is about nesting, not about count)
                for n in [255usize, 256, 257, 600].iter() {
                    let mut v: Vec<Amf0Value> = vec![Amf0Value::StrictArray(vec![]); *n];
                    v.push(nest(&mut rng, 3));
                    t.emit(&enc_event(&v));
                    let mut v: Vec<Amf0Value> = vec![Amf0Value::Object(HashMap::new()); *n];
                    v.push(nest(&mut rng, 3));
                    t.emit(&enc_event(&v));
                    t.emit(&enc_event(&vec![Amf0Value::StrictArray(vec![Amf0Value::StrictArray(vec![]); *n]), nest(&mut rng, 2)]));
                }
                // an encode that fails half way, then ordinary ones: nothing of the failed call may leak into the next
                for _ in 0..3 {
                    t.emit(&enc_event(&vec![Amf0Value::Number(1.0), Amf0Value::Boolean(true), Amf0Value::Utf8String("z".repeat(65536))]));
                    t.emit(&enc_event(&vec![Amf0Value::Null]));
                    let mut p = HashMap::new();
                    p.insert("".to_string(), Amf0Value::Null);
                    t.emit(&enc_event(&vec![Amf0Value::Utf8String("before".into()), Amf0Value::Object(p)]));
                    t.emit(&enc_event(&vec![Amf0Value::Utf8String("after".into())]));
                }
                cases += 40;
            }
            for _ in 0..(150 * scale / nshards as usize + 1) {
                let n = *rng.pick(&[1usize, 1, 2, 3, 5]);
                let vals: Vec<Amf0Value> = (0..n).map(|_| gen_value(&mut rng, 3, true)).collect();
                t.emit(&enc_event(&vals));
                cases += 1;
            }
        }
        "dec" => {
            if shard == 0 {
                // directed: long runs of SIBLING containers (nesting is about depth, not about how many containers a buffer holds),
                // also as properties of one object, each followed by nested containers; and arrays around 1024 elements
                for kind in 0..3u32 {
                    let sib = |i: usize| -> RV {
                        match kind {
                            0 => RV::Obj(vec![(b"k".to_vec(), RV::Num((i as f64).to_be_bytes()))], Some(1)),
                            1 => RV::Obj(vec![], None),
                            _ => RV::Arr(vec![RV::Null]),
                        }
                    };
                    let tailv = RV::Obj(vec![(b"o".to_vec(), RV::Arr(vec![RV::Obj(vec![], Some(0)), RV::Undef]))], None);
                    let mut intent: Vec<RV> = (0..300).map(|i| sib(i)).collect();
                    intent.push(tailv.clone());
                    intent.push(RV::Arr(vec![RV::Arr(vec![RV::Bool(true, 1)])]));
                    let mut bytes = Vec::new();
                    for v in &intent { rv_enc(v, &mut bytes); }
                    t.emit(&dec_event("conf", &bytes, &intent));
                    let props: Vec<(Vec<u8>, RV)> = (0..300).map(|i| (format!("p{}", i).into_bytes(), sib(i))).chain(std::iter::once((b"last".to_vec(), tailv.clone()))).collect();
                    let intent2 = vec![RV::Obj(props, None), tailv];
                    let mut bytes2 = Vec::new();
                    for v in &intent2 { rv_enc(v, &mut bytes2); }
                    t.emit(&dec_event("conf", &bytes2, &intent2));
                    cases += 2;
                }
                // every unsupported marker at every kind of value position, followed by plenty of well-formed bytes
                for (mi, m) in UNSUPPORTED.iter().enumerate() {
                  // k filler bytes, then a well-formed continuation: a decoder that "skips" the payload of a marker it does not
                  // support (k = its idea of the payload length) would carry on as if nothing had happened
                  for &k in [0usize, 1, 2, 3, 4, 5, 8, 9, 10, 12, 16, 24].iter() {
                    if k != 24 && k != 10 && (mi + k) % 3 != 0 { continue; }
                    let tail: Vec<u8> = { let mut x = vec![0u8; k]; x.extend_from_slice(&[0, 1, b'z', 5, 0, 0, 9, 5]); x };
                    let mut cases_b: Vec<Vec<u8>> = Vec::new();
                    cases_b.push({ let mut b = vec![*m]; b.extend(&tail); b });
                    cases_b.push({ let mut b = vec![5, *m]; b.extend(&tail); b });
                    cases_b.push({ let mut b = vec![10, 0, 0, 0, 2, *m]; b.extend(&tail); b });
                    cases_b.push({ let mut b = vec![3, 0, 1, b'a', *m]; b.extend(&tail); b });
                    cases_b.push({ let mut b = vec![3, 0, 1, b'a', 5, 0, 1, b'b', *m]; b.extend(&tail); b });
                    cases_b.push({ let mut b = vec![8, 0, 0, 0, 2, 0, 1, b'a', *m]; b.extend(&tail); b });
                    cases_b.push({ let mut b = vec![3, 0, 1, b'o', 3, 0, 1, b'i', *m]; b.extend(&tail); b });
                    for b in cases_b.iter() {
                        t.emit(&dec_event("bad", b, &[]));
                        cases += 1;
                    }
                  }
                }
                // a conformant encoding LONGER than an RTMP message (the AMF0 codec has no such limit): compared in Rust
                {
                    let n = 258usize;
                    let mut bytes: Vec<u8> = Vec::with_capacity(n * 65538 + 16);
                    for i in 0..n { bytes.extend_from_slice(&[2, 0xFF, 0xFF]); bytes.extend(vec![b'a' + (i % 26) as u8; 65535]); }
                    bytes.extend_from_slice(&[1, 1]);
                    let mut cur = Cursor::new(&bytes[..]);
                    let (res, count, ok) = match catch_unwind(AssertUnwindSafe(|| deserialize(&mut cur))) {
                        Ok(Ok(v)) => { let ok = v.len() == n + 1 && v.iter().take(n).enumerate().all(|(i, x)| matches!(x, Amf0Value::Utf8String(s) if s.len() == 65535 && s.as_bytes()[0] == b'a' + (i % 26) as u8)) && v[n] == Amf0Value::Boolean(true); ("ok".to_string(), v.len(), ok) }
                        Ok(Err(e)) => (format!("err:{:?}", e), 0, false),
                        Err(p) => (format!("panic:{}", panic_msg(p)), 0, false),
                    };
                    t.emit(&json!({"ev":"DecBig","len":bytes.len(),"n":n + 1,"res":res,"count":count,"same":ok}));
                    cases += 1;
                }
                for n in [255usize, 256, 257, 1024, 1025].iter() {
                    let intent = vec![RV::Arr((0..*n).map(|i| RV::Bool(i % 2 == 0, if i % 2 == 0 { 1 } else { 0 })).collect()), RV::Null];
                    let mut bytes = Vec::new();
                    for v in &intent { rv_enc(v, &mut bytes); }
                    t.emit(&dec_event("conf", &bytes, &intent));
                    let intent2 = vec![RV::Obj(vec![(b"a".to_vec(), RV::Arr((0..*n).map(|_| RV::Null).collect())), (b"z".to_vec(), RV::Bool(true, 1))], None)];
                    let mut bytes2 = Vec::new();
                    for v in &intent2 { rv_enc(v, &mut bytes2); }
                    t.emit(&dec_event("conf", &bytes2, &intent2));
                    cases += 2;
                }
            }
            for _ in 0..(60 * scale / nshards as usize + 1) {
                let n = *rng.pick(&[1usize, 1, 2, 3]);
                let intent: Vec<RV> = (0..n).map(|_| gen_rv(&mut rng, 3)).collect();
                let mut bytes = Vec::new();
                for v in &intent {
                    rv_enc(v, &mut bytes);
                }
                t.emit(&dec_event("conf", &bytes, &intent));
                cases += 1;
                // every truncation point (strided for long encodings)
                let stride = (bytes.len() / 300).max(1);
                let mut k = 0;
                while k < bytes.len() {
                    t.emit(&dec_event("trunc", &bytes[..k], &intent));
                    cases += 1;
                    k += stride;
                }
                // an unsupported marker at a value position: replace the marker of a value
                // (top level / element / property value) by an unsupported one
                let m = *rng.pick(&UNSUPPORTED);
                let mut b2 = Vec::new();
                let pos = rng.below(intent.len() as u64) as usize;
                for (i, v) in intent.iter().enumerate() {
                    if i == pos {
                        match v {
                            RV::Arr(e) if rng.chance(1, 2) => {
                                b2.push(10);
                                b2.extend_from_slice(&((e.len() + 1) as u32).to_be_bytes());
                                for x in e {
                                    rv_enc(x, &mut b2);
                                }
                                b2.push(m);
                            }
                            RV::Obj(p, _) if rng.chance(1, 2) => {
                                b2.push(3);
                                for (k, x) in p {
                                    b2.extend_from_slice(&(k.len() as u16).to_be_bytes());
                                    b2.extend_from_slice(k);
                                    rv_enc(x, &mut b2);
                                }
                                b2.extend_from_slice(&[0, 3, b'b', b'a', b'd', m]);
                            }
                            _ => b2.push(m),
                        }
                        let tail = rng.below(12) as usize;
                        b2.extend_from_slice(&rng.bytes(tail));
                        break;
                    } else {
                        rv_enc(v, &mut b2);
                    }
                }
                t.emit(&dec_event("bad", &b2, &[]));
                cases += 1;
            }
            if shard == 0 {
                // all 256 markers at top level, as array element, as property value
                for m in 0..=255u8 {
                    if [0u8, 1, 2, 3, 5, 6, 8, 9, 10].contains(&m) {
                        continue;
                    }
                    t.emit(&dec_event("bad", &[m, 0, 0, 0, 0, 0, 0, 0, 0], &[]));
                    t.emit(&dec_event("bad", &[10, 0, 0, 0, 2, 5, m, 1, 2, 3], &[]));
                    t.emit(&dec_event("bad", &[3, 0, 1, b'a', m, 0, 0, 9], &[]));
                    t.emit(&dec_event("bad", &[5, 8, 0, 0, 0, 1, 0, 1, b'a', m, 0, 0, 9], &[]));
                    cases += 4;
                }
                // all property orders of a 3-property object
                let props: Vec<(Vec<u8>, RV)> = vec![
                    (b"a".to_vec(), RV::Num(1.0f64.to_bits().to_be_bytes())),
                    (b"bb".to_vec(), RV::Str(b"x".to_vec())),
                    (b"c".to_vec(), RV::Arr(vec![RV::Null, RV::Bool(true, 7)])),
                ];
                for perm in [[0, 1, 2], [0, 2, 1], [1, 0, 2], [1, 2, 0], [2, 0, 1], [2, 1, 0]].iter() {
                    let p: Vec<(Vec<u8>, RV)> = perm.iter().map(|&i| props[i].clone()).collect();
                    for ecma in [None, Some(0u32), Some(1), Some(2), Some(3), Some(4), Some(0xFFFFFFFF)].iter() {
                        let v = RV::Obj(p.clone(), *ecma);
                        let mut b = Vec::new();
                        rv_enc(&v, &mut b);
                        t.emit(&dec_event("conf", &b, &[v]));
                        cases += 1;
                    }
                }
                for byte in 0..=255u8 {
                    let v = RV::Bool(byte != 0, byte);
                    let mut b = Vec::new();
                    rv_enc(&v, &mut b);
                    t.emit(&dec_event("conf", &b, &[v]));
                    cases += 1;
                }
            }
        }
        _ => panic!("unknown amf kind"),
    }
    t.flush();
    json!({"kind":kind,"runs":cases,"lines":t.line,"path":path})
}
