//! Resource / robustness runner (C03, C14, C19).  Cases run in a CHILD process (address-space limit,
//! counting allocator, decode threads with a 2 MiB stack); the parent supervises with a wall-clock
//! limit per case.  A dead or hung child leaves a Call without Return, which the parent records as
//! Died / Timeout.  Logs for Trace_Resource.tla.
use crate::sess::Peer;
use crate::util::*;
use bytes::Bytes;
use rml_amf0::Amf0Value;
use rml_rtmp::chunk_io::{ChunkDeserializer, ChunkSerializer};
use rml_rtmp::handshake::{Handshake, PeerType};
use rml_rtmp::messages::{MessagePayload, RtmpMessage, UserControlEventType};
use rml_rtmp::sessions::{ClientSession, ClientSessionConfig, ClientSessionResult, PublishRequestType, ServerSession, ServerSessionConfig,
                         ServerSessionEvent, ServerSessionResult};
use rml_rtmp::time::RtmpTimestamp;
use serde_json::{json, Value};
use std::alloc::{GlobalAlloc, Layout, System};
use std::collections::HashMap;
use std::io::{BufRead, BufReader, Write};
use std::panic::{catch_unwind, AssertUnwindSafe};
use std::sync::atomic::{AtomicUsize, Ordering};
use std::time::{Duration, Instant};

pub struct Counting;
static CUR: AtomicUsize = AtomicUsize::new(0);
static PEAK: AtomicUsize = AtomicUsize::new(0);
unsafe impl GlobalAlloc for Counting {
    unsafe fn alloc(&self, l: Layout) -> *mut u8 {
        let p = System.alloc(l);
        if !p.is_null() {
            let c = CUR.fetch_add(l.size(), Ordering::Relaxed) + l.size();
            PEAK.fetch_max(c, Ordering::Relaxed);
        }
        p
    }
    unsafe fn dealloc(&self, p: *mut u8, l: Layout) {
        CUR.fetch_sub(l.size(), Ordering::Relaxed);
        System.dealloc(p, l)
    }
    unsafe fn realloc(&self, p: *mut u8, l: Layout, n: usize) -> *mut u8 {
        let q = System.realloc(p, l, n);
        if !q.is_null() {
            if n > l.size() {
                let c = CUR.fetch_add(n - l.size(), Ordering::Relaxed) + (n - l.size());
                PEAK.fetch_max(c, Ordering::Relaxed);
            } else {
                CUR.fetch_sub(l.size() - n, Ordering::Relaxed);
            }
        }
        q
    }
}
fn mem_reset() -> usize {
    let c = CUR.load(Ordering::Relaxed);
    PEAK.store(c, Ordering::Relaxed);
    c
}
fn mem_peak_over(base: usize) -> usize {
    PEAK.load(Ordering::Relaxed).saturating_sub(base)
}

fn s(x: &str) -> Amf0Value {
    Amf0Value::Utf8String(x.to_string())
}
fn amf(vals: Vec<Amf0Value>) -> Vec<u8> {
    rml_amf0::serialize(&vals).unwrap_or_default()
}
fn obj(pairs: Vec<(&str, Amf0Value)>) -> Amf0Value {
    let mut p = HashMap::new();
    for (k, v) in pairs {
        p.insert(k.to_string(), v);
    }
    Amf0Value::Object(p)
}

// ------------------------------------------------------------------------------------------------
// hostile inputs

/// (type id, message stream id, body) of the idx-th hostile message; None when idx is past the table
fn hostile_message(idx: usize, rng: &mut Rng) -> Option<(u8, u32, Vec<u8>, String)> {
    let names = ["connect", "createStream", "publish", "play", "closeStream", "deleteStream", "_result", "_error", "onStatus", "zzz"];
    let argsets: Vec<(Vec<Amf0Value>, &str)> = vec![
        (vec![], "noargs"),
        (vec![Amf0Value::Null], "null"),
        (vec![Amf0Value::Number(1.0)], "num"),
        (vec![Amf0Value::Number(-1.0)], "negnum"),
        (vec![Amf0Value::Number(1e300)], "hugenum"),
        (vec![Amf0Value::Number(f64::NAN)], "nan"),
        (vec![s("k")], "str"),
        (vec![obj(vec![])], "emptyobj"),
        (vec![obj(vec![("code", Amf0Value::Number(1.0))])], "objcodenum"),
        (vec![s("k"), Amf0Value::Number(1.0)], "strnum"),
        (vec![s("k"), s("live"), s("x"), s("y")], "many"),
        (vec![Amf0Value::StrictArray(vec![])], "arr"),
    ];
    let objs: Vec<(Amf0Value, &str)> = vec![
        (Amf0Value::Null, "onull"),
        (obj(vec![("app", s("live"))]), "oapp"),
        (obj(vec![("app", Amf0Value::Number(1.0))]), "oappnum"),
        (s("notobject"), "ostr"),
    ];
    let ncmd = names.len() * argsets.len() * objs.len();
    let mut i = idx;
    if i < ncmd {
        let name = names[i % names.len()];
        i /= names.len();
        let (args, an) = argsets[i % argsets.len()].clone();
        i /= argsets.len();
        let (o, on) = objs[i].clone();
        let mut vals = vec![s(name), Amf0Value::Number(*rng.pick(&[0.0, 1.0, 2.0, 7.0])), o];
        vals.extend(args);
        let ty = if idx % 5 == 0 { 17 } else { 20 };
        let mut body = amf(vals);
        if ty == 17 && idx % 2 == 0 {
            body.insert(0, 0);
        }
        return Some((ty, *rng.pick(&[0u32, 1, 5]), body, format!("cmd:{}:{}:{}", name, an, on)));
    }
    i -= ncmd;
    // commands with too few values / wrong leading types
    let short: Vec<(Vec<Amf0Value>, &str)> = vec![
        (vec![], "cmd0"),
        (vec![s("connect")], "cmd1"),
        (vec![s("connect"), Amf0Value::Number(1.0)], "cmd2"),
        (vec![Amf0Value::Number(1.0), Amf0Value::Number(1.0), Amf0Value::Null], "cmdnamenum"),
        (vec![s("connect"), s("x"), Amf0Value::Null], "cmdtxnstr"),
        (vec![Amf0Value::Null], "cmdnull"),
    ];
    if i < short.len() * 2 {
        let (v, n) = short[i / 2].clone();
        return Some((if i % 2 == 0 { 20 } else { 17 }, 0, amf(v), format!("short:{}", n)));
    }
    i -= short.len() * 2;
    let datas: Vec<(Vec<Amf0Value>, &str)> = vec![
        (vec![], "d0"),
        (vec![s("@setDataFrame")], "sdf0"),
        (vec![s("@setDataFrame"), s("onMetaData")], "sdf1"),
        (vec![s("@setDataFrame"), Amf0Value::Number(1.0)], "sdfnum"),
        (vec![s("@setDataFrame"), s("onMetaData"), Amf0Value::Null], "sdfnull"),
        (vec![s("@setDataFrame"), s("onMetaData"), obj(vec![("width", s("x")), ("stereo", Amf0Value::Number(1.0)), ("encoder", Amf0Value::Null)])], "sdfbadtypes"),
        (vec![s("@setDataFrame"), s("onMetaData"), obj(vec![("width", Amf0Value::Number(-1.0)), ("height", Amf0Value::Number(1e300)), ("framerate", Amf0Value::Number(f64::NAN))])], "sdfextreme"),
        // legal but unusual value types and lengths for every metadata key (some encoders send FourCC strings as codec ids)
        (vec![s("@setDataFrame"), s("onMetaData"), obj(vec![("videocodecid", s("")), ("audiocodecid", s("h"))])], "sdfcodecstr01"),
        (vec![s("@setDataFrame"), s("onMetaData"), obj(vec![("videocodecid", s("vp8")), ("audiocodecid", s("mp3"))])], "sdfcodecstr3"),
        (vec![s("@setDataFrame"), s("onMetaData"), obj(vec![("videocodecid", s("avc1")), ("audiocodecid", s("mp4a")), ("encoder", s(""))])], "sdfcodecstr4"),
        (vec![s("@setDataFrame"), s("onMetaData"), obj(vec![("videocodecid", s("h\u{e9}v\u{e9}c")), ("audiocodecid", Amf0Value::Boolean(true)), ("width", Amf0Value::Boolean(true)), ("stereo", s("yes"))])], "sdfcodecstr5"),
        (vec![s("onMetaData"), obj(vec![("videocodecid", s("")), ("audiocodecid", s("h"))])], "mdcodecstr01"),
        (vec![s("onMetaData"), obj(vec![("videocodecid", s("vp8")), ("audiocodecid", s("mp3")), ("duration", s("x")), ("filesize", Amf0Value::Null)])], "mdcodecstr3"),
        (vec![s("onMetaData"), obj(vec![("videocodecid", s("avc1")), ("audiocodecid", s("mp4a"))])], "mdcodecstr4"),
        (vec![s("onMetaData")], "md0"),
        (vec![s("onMetaData"), Amf0Value::Number(1.0)], "mdnum"),
        (vec![Amf0Value::Number(1.0)], "dnum"),
    ];
    if i < datas.len() * 2 * 3 {
        let (v, n) = datas[i / 6].clone();
        let ty = if i % 2 == 0 { 18 } else { 15 };
        let msid = [0u32, 1, 5][(i / 2) % 3];
        return Some((ty, msid, amf(v), format!("data:{}", n)));
    }
    i -= datas.len() * 6;
    // user control: every known event code and a few unknown ones, bodies of every short length
    let codes = [0u16, 1, 2, 3, 4, 5, 6, 7, 8, 31, 32, 33, 0xFFFF];
    if i < codes.len() * 11 {
        let code = codes[i / 11];
        let len = i % 11;
        let mut b = code.to_be_bytes().to_vec();
        b.extend(rng.bytes(10));
        b.truncate(len);
        return Some((4, 0, b, format!("uc:{}:{}", code, len)));
    }
    i -= codes.len() * 11;
    let ctl: Vec<(u8, Vec<u8>, &str)> = vec![
        (1, vec![0, 0, 0, 0], "setcs0"), (1, vec![0x80, 0, 0, 0], "setcs2^31"), (1, vec![0xFF, 0xFF, 0xFF, 0xFF], "setcsmax"),
        (1, vec![0, 0, 1], "setcsshort"), (1, vec![], "setcsempty"), (1, vec![0, 0, 0, 1, 9, 9], "setcslong"),
        (2, vec![], "abort0"), (2, vec![0, 0, 0, 2], "abort"), (3, vec![1], "ackshort"), (3, vec![0xFF; 4], "ackmax"),
        (5, vec![0, 0, 0, 0], "winack0"), (5, vec![0, 0], "winackshort"), (5, vec![0xFF; 4], "winackmax"),
        (6, vec![0, 0, 0, 1], "bwshort"), (6, vec![0, 0, 0, 1, 9], "bwbadcode"), (6, vec![0, 0, 0, 0, 2], "bw0"),
        (8, vec![], "audio0"), (9, vec![], "video0"),
    ];
    if i < ctl.len() {
        let (ty, b, n) = ctl[i].clone();
        return Some((ty, 0, b, format!("ctl:{}", n)));
    }
    i -= ctl.len();
    // AMF0 garbage / truncation / bounded nesting inside command and data bodies
    if i < 40 {
        let depth = [1usize, 4, 16][i % 3];
        let mut b = Vec::new();
        if i % 2 == 0 {
            b.extend(amf(vec![s("connect"), Amf0Value::Number(1.0)]));
        }
        for _ in 0..depth {
            b.extend_from_slice(if i % 4 < 2 { &[10, 0, 0, 0, 1] } else { &[3, 0, 1, b'a'] });
        }
        // lying element counts / lengths (nothing may be allocated on the strength of a declared count)
        if i % 5 == 0 {
            b.extend_from_slice(&[10, 0, 0x10, 0, 0]);
        } else if i % 5 == 1 {
            b.extend_from_slice(&[10, 0xFF, 0xFF, 0xFF, 0xFF, 5]);
        } else if i % 5 == 2 {
            b.extend_from_slice(&[8, 0xFF, 0xFF, 0xFF, 0xFF, 0, 1, b'a', 10, 0x7F, 0xFF, 0xFF, 0xFF]);
        }
        let tail = rng.below(9) as usize;
        b.extend(rng.bytes(tail));
        return Some(([20u8, 18, 17, 15][i % 4], 0, b, format!("amfgarbage:{}", i)));
    }
    i -= 40;
    if i < 120 {
        let ty = rng.next() as u8;
        let n = *rng.pick(&[0usize, 1, 3, 4, 5, 6, 11, 64, 300]);
        return Some((ty, rng.u32(), rng.bytes(n), format!("random:{}", ty)));
    }
    None
}

fn cut_sizes(rng: &mut Rng, mode: usize, total: usize) -> Vec<usize> {
    match mode {
        0 => vec![total],
        1 => vec![1; total],
        _ => {
            let mut v = Vec::new();
            let mut left = total;
            while left > 0 {
                let n = (rng.range(1, 40) as usize).min(left);
                v.push(n);
                left -= n;
            }
            v
        }
    }
}

fn ok_err<T, E>(r: Result<T, E>) -> &'static str {
    if r.is_ok() { "ok" } else { "err" }
}

// ---- server in a given state, then one hostile message (and a ping afterwards)
pub fn server_in_state(state: usize) -> Option<(ServerSession, Peer)> {
    let (mut srv, rs) = ServerSession::new(ServerSessionConfig::new()).ok()?;
    let mut peer = Peer::new();
    for r in rs.iter() {
        if let ServerSessionResult::OutboundResponse(p) = r {
            peer.decode(p);
        }
    }
    // the peer must see EVERY packet the session hands out, in order (its decoder follows the header compression)
    let mut feed = |srv: &mut ServerSession, peer: &mut Peer, m: RtmpMessage, msid: u32| -> Vec<ServerSessionResult> {
        let b = peer.encode(m, 0, msid);
        let rs = srv.handle_input(&b).unwrap_or_default();
        for r in rs.iter() {
            if let ServerSessionResult::OutboundResponse(p) = r {
                peer.decode(p);
            }
        }
        rs
    };
    let accept_last = |srv: &mut ServerSession, peer: &mut Peer, rs: &[ServerSessionResult]| {
        for r in rs {
            if let ServerSessionResult::RaisedEvent(e) = r {
                let id = match e {
                    ServerSessionEvent::ConnectionRequested { request_id, .. } => Some(*request_id),
                    ServerSessionEvent::PublishStreamRequested { request_id, .. } => Some(*request_id),
                    ServerSessionEvent::PlayStreamRequested { request_id, .. } => Some(*request_id),
                    _ => None,
                };
                if let Some(id) = id {
                    if let Ok(rs2) = srv.accept_request(id) {
                        for r2 in rs2.iter() {
                            if let ServerSessionResult::OutboundResponse(p) = r2 {
                                peer.decode(p);
                            }
                        }
                    }
                }
            }
        }
    };
    if state >= 1 {
        let rs = feed(&mut srv, &mut peer, RtmpMessage::Amf0Command { command_name: "connect".into(), transaction_id: 1.0,
                      command_object: obj(vec![("app", s("live"))]), additional_arguments: vec![] }, 0);
        accept_last(&mut srv, &mut peer, &rs);
    }
    if state >= 2 {
        feed(&mut srv, &mut peer, RtmpMessage::Amf0Command { command_name: "createStream".into(), transaction_id: 2.0,
             command_object: Amf0Value::Null, additional_arguments: vec![] }, 0);
    }
    if state == 3 {
        let rs = feed(&mut srv, &mut peer, RtmpMessage::Amf0Command { command_name: "publish".into(), transaction_id: 0.0,
                      command_object: Amf0Value::Null, additional_arguments: vec![s("key"), s("live")] }, 1);
        accept_last(&mut srv, &mut peer, &rs);
    }
    if state == 4 {
        let rs = feed(&mut srv, &mut peer, RtmpMessage::Amf0Command { command_name: "play".into(), transaction_id: 0.0,
                      command_object: Amf0Value::Null, additional_arguments: vec![s("key")] }, 1);
        accept_last(&mut srv, &mut peer, &rs);
    }
    Some((srv, peer))
}

pub fn client_in_state(state: usize) -> Option<(ClientSession, Peer)> {
    let (mut c, _) = ClientSession::new(ClientSessionConfig::new()).ok()?;
    let mut peer = Peer::new();
    let take = |peer: &mut Peer, r: Result<ClientSessionResult, rml_rtmp::sessions::ClientSessionError>| {
        if let Ok(ClientSessionResult::OutboundResponse(p)) = r {
            peer.decode(&p);
        }
    };
    let feed = |c: &mut ClientSession, peer: &mut Peer, m: RtmpMessage, msid: u32| {
        let b = peer.encode(m, 0, msid);
        if let Ok(rs) = c.handle_input(&b) {
            for r in rs.iter() {
                if let ClientSessionResult::OutboundResponse(p) = r {
                    peer.decode(p);
                }
            }
        }
    };
    if state >= 1 {
        let r = c.request_connection("live".to_string());
        take(&mut peer, r);
    }
    if state >= 2 {
        feed(&mut c, &mut peer, RtmpMessage::Amf0Command { command_name: "_result".into(), transaction_id: 1.0, command_object: Amf0Value::Null,
                                                            additional_arguments: vec![obj(vec![("code", s("NetConnection.Connect.Success"))])] }, 0);
    }
    if state >= 3 {
        let r = if state % 2 == 1 { c.request_playback("key".into()) } else { c.request_publishing("key".into(), PublishRequestType::Live) };
        take(&mut peer, r);
    }
    if state >= 5 {
        feed(&mut c, &mut peer, RtmpMessage::Amf0Command { command_name: "_result".into(), transaction_id: 2.0, command_object: Amf0Value::Null,
                                                            additional_arguments: vec![Amf0Value::Number(1.0)] }, 0);
    }
    if state >= 7 {
        let code = if state % 2 == 1 { "NetStream.Play.Start" } else { "NetStream.Publish.Start" };
        feed(&mut c, &mut peer, RtmpMessage::Amf0Command { command_name: "onStatus".into(), transaction_id: 0.0, command_object: Amf0Value::Null,
                                                            additional_arguments: vec![obj(vec![("code", s(code))])] }, 1);
    }
    Some((c, peer))
}

/// hostile chunk streams for the bare deserializer
fn hostile_stream(class: usize, rng: &mut Rng) -> (Vec<u8>, String) {
    let hdr0 = |csid: u8, ts: u32, len: u32, ty: u8, msid: u32| -> Vec<u8> {
        let mut b = vec![csid];
        b.extend_from_slice(&[(ts >> 16) as u8, (ts >> 8) as u8, ts as u8, (len >> 16) as u8, (len >> 8) as u8, len as u8, ty]);
        b.extend_from_slice(&msid.to_le_bytes());
        b
    };
    match class {
        0 => {
            // a later header announces a message shorter than what is already buffered
            let mut b = hdr0(3, 0, 300, 9, 1);
            b.extend(vec![1u8; 128]);
            b.extend(vec![0xC3]);
            b.extend(vec![2u8; 128]);
            let mut h = hdr0(if rng.chance(1, 2) { 3 } else { 0x43 }, 5, 50, 9, 1);
            if h[0] == 0x43 { h.truncate(8); }
            b.extend(h);
            b.extend(vec![3u8; 60]);
            (b, "shorter-than-buffered".into())
        }
        1 => {
            // delta header with a saturated field and an extended value below 0xFFFFFF
            let mut b = hdr0(3, 0, 4, 9, 1);
            b.extend(vec![1u8; 4]);
            let fmt = if rng.chance(1, 2) { 0x43u8 } else { 0x83 };
            b.push(fmt);
            b.extend_from_slice(&[0xFF, 0xFF, 0xFF]);
            if fmt == 0x43 { b.extend_from_slice(&[0, 0, 4, 9]); }
            b.extend_from_slice(&(rng.below(0xFFFFFF) as u32).to_be_bytes());
            b.extend(vec![2u8; 4]);
            (b, "ext-below-threshold-on-delta".into())
        }
        2 => {
            let csid = rng.range(2, 63) as u8;
            let mut b = vec![[0x40u8, 0x80, 0xC0][rng.below(3) as usize] | csid];
            b.extend(rng.bytes(20));
            (b, "compressed-on-unseen-csid".into())
        }
        3 => {
            // many chunk streams each announcing a 16 MiB message and sending one chunk of it
            let mut b = Vec::new();
            let n = 600;
            for c in 0..n {
                let v = c as u32;
                b.extend_from_slice(&[1, (v & 0xFF) as u8, (v >> 8) as u8]);
                b.extend_from_slice(&[0, 0, 0, 0xFF, 0xFF, 0xFF, 9, 1, 0, 0, 0]);
                b.extend(vec![7u8; 128]);
            }
            (b, "many-announced-16MiB".into())
        }
        4 => {
            let n = *rng.pick(&[1usize, 2, 3, 11, 12, 13, 64, 500, 5000]);
            (rng.bytes(n), "random".into())
        }
        5 => {
            // zero-length messages and fmt-3 runs
            let mut b = hdr0(4, 0xFFFFFF, 0, 8, 0);
            b.extend_from_slice(&[0xFF, 0xFF, 0xFF, 0xFF]);
            for _ in 0..50 { b.push(0xC4); b.extend_from_slice(&[0xFF, 0xFF, 0xFF, 0xFF]); }
            (b, "zero-length-fmt3-run".into())
        }
        7 => {
            // chunk stream ids at the edges of the 1-, 2- and 3-byte forms (incl. 65536 .. 65599)
            let mut b = Vec::new();
            for &c in [63u32, 64, 65, 319, 320, 321, 65535, 65536, 65537, 65598, 65599].iter() {
                let v = c.saturating_sub(64);
                if c < 64 { b.push(c as u8); } else if c < 320 && rng.chance(1, 2) { b.extend_from_slice(&[0, v as u8]); } else { b.extend_from_slice(&[1, (v & 0xFF) as u8, (v >> 8) as u8]); }
                b.extend_from_slice(&[0, 0, 5, 0, 0, 3, 9, 1, 0, 0, 0, 7, 7, 7]);
                // and a compressed follow-up on the same csid
                if c < 64 { b.push(0xC0 | c as u8); } else { b.extend_from_slice(&[0xC1, (v & 0xFF) as u8, (v >> 8) as u8]); }
                b.extend_from_slice(&[8, 8, 8]);
            }
            (b, "csid-form-edges".into())
        }
        9 | 10 => {
            // a VALID foreign stream (class 9: interleaved messages with size changes in flight; class 10: one message at a time,
            // all csid forms): robustness is quantified over every byte sequence - the conformant ones included
            let t = Trace::create("/dev/null");
            let mut run = crate::chunk::Run::new(&t, "fixed", false);
            let lim = crate::chunk::Limits { max_len: 3000, max_chunks: 6 };
            let n = rng.range(2, 14) as usize;
            crate::chunk::run_foreign(&mut run, rng, n, &lim, class == 9);
            (run.stream.clone(), if class == 9 { "valid-interleaved".into() } else { "valid-foreign".into() })
        }
        _ => {
            // a valid library-made stream with a few byte mutations
            let mut ser = ChunkSerializer::new();
            let mut b = Vec::new();
            let lim = crate::chunk::Limits { max_len: 2000, max_chunks: 20 };
            let nsteps = rng.range(1, 8) as usize;
            let steps = crate::chunk::gen_ser_steps(rng, nsteps, &lim, false);
            for st in steps {
                if st.m.data.len() > 16_777_215 { continue; } // (refused calls contribute nothing to a stream)
                let r = match st.setcs {
                    Some(v) => ser.set_max_chunk_size(v.max(1), RtmpTimestamp::new(st.m.ts)),
                    None => ser.serialize(&MessagePayload { timestamp: RtmpTimestamp::new(st.m.ts), type_id: st.m.ty, message_stream_id: st.m.msid,
                                                            data: Bytes::from(st.m.data) }, st.fu, false),
                };
                if let Ok(p) = r { b.extend(p.bytes); }
            }
            let muts = rng.range(1, 3);
            for _ in 0..muts {
                if b.is_empty() { break; }
                let p = rng.below(b.len() as u64) as usize;
                match rng.below(4) {
                    0 => b[p] ^= 1 << rng.below(8),
                    1 => { b.remove(p); }
                    2 => b.insert(p, rng.next() as u8),
                    _ => b.truncate(p),
                }
            }
            (b, "mutated-valid".into())
        }
    }
}

fn pump(word: &[u8], depth: usize) -> Vec<u8> {
    let mut b = Vec::with_capacity(depth * 8 + 8);
    for i in 0..depth {
        match word[i % word.len()] {
            b'A' => b.extend_from_slice(&[10, 0, 0, 0, 1]),
            b'O' => b.extend_from_slice(&[3, 0, 1, b'a']),
            _ => b.extend_from_slice(&[8, 0, 0, 0, 1, 0, 1, b'a']),
        }
    }
    b.push(5);
    b
}

fn decode_on_small_stack(bytes: Vec<u8>) -> String {
    let h = std::thread::Builder::new().stack_size(2 << 20).spawn(move || {
        let r = catch_unwind(AssertUnwindSafe(|| {
            let mut c = std::io::Cursor::new(&bytes[..]);
            let r = rml_amf0::deserialize(&mut c);
            let s = ok_err(r.as_ref().map(|_| ()).map_err(|_| ()));
            drop(r); // dropping a deep value recurses too: inside the same small stack
            s
        }));
        match r {
            Ok(s) => s.to_string(),
            Err(p) => format!("panic:{}", panic_msg(p)),
        }
    }).expect("spawn");
    match h.join() {
        Ok(s) => s,
        Err(_) => "panic:thread".to_string(),
    }
}

/// Run one case.  Returns (res, bytes received, extra fields).
fn run_case(c: &Value) -> (String, usize, Value) {
    let t = c["t"].as_str().unwrap_or("");
    let seed = c["seed"].as_u64().unwrap_or(1);
    let mut rng = Rng::new(seed);
    let mut extra = json!({});
    let guard = |f: &mut dyn FnMut() -> (String, usize)| -> (String, usize) {
        match catch_unwind(AssertUnwindSafe(|| f())) {
            Ok(x) => x,
            Err(p) => (format!("panic:{}", panic_msg(p)), 0),
        }
    };
    let (res, rx) = match t {
        "amf" => {
            let bytes = match c["shape"].as_str().unwrap_or("") {
                "nest" => pump(c["word"].as_str().unwrap_or("A").as_bytes(), c["depth"].as_u64().unwrap_or(1) as usize),
                "lie" => {
                    let cnt = (c["count"].as_u64().unwrap_or(0) as u32).to_be_bytes();
                    match c["kind"].as_str().unwrap_or("") {
                        "array" => { let mut b = vec![10]; b.extend_from_slice(&cnt); b.extend_from_slice(&[5, 5, 5]); b }
                        "ecma" => { let mut b = vec![8]; b.extend_from_slice(&cnt); b.extend_from_slice(&[0, 1, b'a', 5, 0, 0, 9]); b }
                        "string" => { let mut b = vec![2, 0xFF, 0xFF]; b.extend(vec![b'x'; c["count"].as_u64().unwrap_or(0) as usize]); b }
                        _ => { let mut b = vec![3, 0xFF, 0xFF]; b.extend(vec![b'x'; c["count"].as_u64().unwrap_or(0) as usize]); b }
                    }
                }
                "flat" => vec![c["byte"].as_u64().unwrap_or(5) as u8; c["len"].as_u64().unwrap_or(1) as usize],
                "siblings" => {
                    // many sibling containers, each declaring a large count / length and holding (almost) nothing
                    let cnt = (c["count"].as_u64().unwrap_or(1024) as u32).to_be_bytes();
                    let n = c["n"].as_u64().unwrap_or(1000) as usize;
                    let mut b = Vec::with_capacity(n * 8);
                    for _ in 0..n {
                        match c["kind"].as_str().unwrap_or("array") {
                            "array" => { b.push(10); b.extend_from_slice(&cnt); b.push(9); }
                            "ecma" => { b.push(8); b.extend_from_slice(&cnt); b.extend_from_slice(&[0, 0, 9]); }
                            _ => { b.extend_from_slice(&[3, 0, 0, 9]); }
                        }
                    }
                    b
                }
                "refbomb" => {
                    // the AMF0 Reference marker (0x07, not supported by the library): arrays holding two references to the previous
                    // complete value each - if references are ever resolved by copying, every 11-byte level doubles the result
                    let levels = c["levels"].as_u64().unwrap_or(18) as usize;
                    let mut b: Vec<u8> = vec![10, 0, 0, 0, 1, 5];
                    for i in 0..levels {
                        b.extend_from_slice(&[10, 0, 0, 0, 2, 7, (i >> 8) as u8, i as u8, 7, (i >> 8) as u8, i as u8]);
                    }
                    if c["kind"] == "object" {
                        let mut o: Vec<u8> = vec![3];
                        for i in 0..levels { o.extend_from_slice(&[0, 1, b'a' + (i % 26) as u8, 7, 0, 0]); }
                        o.extend_from_slice(&[0, 0, 9]);
                        b.extend(o);
                    }
                    b
                }
                "props" => {
                    // ONE flat container with very many properties / elements of one simple kind
                    let n = c["n"].as_u64().unwrap_or(1000) as usize;
                    let val: Vec<u8> = match c["val"].as_str().unwrap_or("undef") {
                        "undef" => vec![6], "null" => vec![5], "bool" => vec![1, 1], "num" => vec![0, 0, 0, 0, 0, 0, 0, 0, 0],
                        "str" => vec![2, 0, 0], "arr" => vec![10, 0, 0, 0, 0], "obj" => vec![3, 0, 0, 9], _ => vec![0x0D],
                    };
                    let mut b = Vec::with_capacity(n * (val.len() + 4) + 16);
                    match c["kind"].as_str().unwrap_or("object") {
                        "array" => { b.push(10); b.extend_from_slice(&(n as u32).to_be_bytes()); for _ in 0..n { b.extend_from_slice(&val); } }
                        kind => {
                            if kind == "ecma" { b.push(8); b.extend_from_slice(&(n as u32).to_be_bytes()); } else { b.push(3); }
                            for i in 0..n { b.extend_from_slice(&[0, 2, b'a' + (i % 26) as u8, b'a' + ((i / 26) % 26) as u8]); b.extend_from_slice(&val); }
                            b.extend_from_slice(&[0, 0, 9]);
                        }
                    }
                    b
                }
                "longname" => {
                    // a property name of 60..70 bytes with a multi-byte character at a chosen position, then the end of the input
                    // or an end marker / a value: error paths that quote the name must not cut it inside a character
                    let pos = c["pos"].as_u64().unwrap_or(63) as usize;
                    let total = c["len"].as_u64().unwrap_or(66) as usize;
                    let mut name: Vec<u8> = vec![b'n'; pos];
                    name.extend_from_slice("\u{e9}".as_bytes());
                    while name.len() < total { name.push(b'm'); }
                    let mut b = vec![if c["kind"] == "ecma" { 8u8 } else { 3u8 }];
                    if c["kind"] == "ecma" { b.extend_from_slice(&[0, 0, 0, 1]); }
                    b.extend_from_slice(&(name.len() as u16).to_be_bytes());
                    b.extend_from_slice(&name);
                    match c["after"].as_str().unwrap_or("eof") {
                        "eof" => {}
                        "end" => b.push(9),
                        "badmarker" => b.push(0x0D),
                        _ => b.extend_from_slice(&[5, 0, 0, 9]),
                    }
                    b
                }
                "keys" => {
                    // property names that read like array indexes or sizes: nothing in the input may size an allocation
                    let key = c["key"].as_str().unwrap_or("0").as_bytes().to_vec();
                    let n = c["n"].as_u64().unwrap_or(1) as usize;
                    let mut b = Vec::new();
                    if c["kind"] == "ecma" { b.push(8); b.extend_from_slice(&(n as u32).to_be_bytes()); } else { b.push(3); }
                    for i in 0..n {
                        let k: Vec<u8> = if i + 1 == n { key.clone() } else { format!("{}", i).into_bytes() };
                        b.extend_from_slice(&(k.len() as u16).to_be_bytes());
                        b.extend_from_slice(&k);
                        b.push(0);
                        b.extend_from_slice(&(i as f64).to_be_bytes());
                    }
                    b.extend_from_slice(&[0, 0, 9]);
                    b
                }
                "marker" => {
                    // every marker byte followed by a large declared length / count
                    let mut b = vec![c["byte"].as_u64().unwrap_or(0) as u8];
                    b.extend_from_slice(&(c["count"].as_u64().unwrap_or(0) as u32).to_be_bytes());
                    b.extend_from_slice(&[1, 2, 3, 4, 5, 6, 7, 8]);
                    b
                }
                _ => {
                    // random garbage built from markers
                    let n = c["len"].as_u64().unwrap_or(100) as usize;
                    (0..n).map(|_| *rng.pick(&[0u8, 1, 2, 3, 5, 6, 8, 9, 10, 0, 0, 1, 97])).collect()
                }
            };
            let n = bytes.len();
            (decode_on_small_stack(bytes), n)
        }
        "amfrepeat" => {
            // one small-stack thread decodes the same failing input over and over
            let depth = c["depth"].as_u64().unwrap_or(1000) as usize;
            let times = c["times"].as_u64().unwrap_or(100) as usize;
            extra = json!({"class": format!("amfrepeat:{}:{}", depth, times)});
            let bytes = pump(b"A", depth);
            let n = bytes.len();
            let h = std::thread::Builder::new().stack_size(2 << 20).spawn(move || {
                let mut last = "ok";
                for _ in 0..times {
                    let mut c = std::io::Cursor::new(&bytes[..]);
                    last = ok_err(rml_amf0::deserialize(&mut c).map(|_| ()).map_err(|_| ()));
                }
                last.to_string()
            }).expect("spawn");
            (match h.join() { Ok(s) => s, Err(_) => "panic:thread".to_string() }, n)
        }
        "amfwalk" => guard(&mut || {
            // strings and property names of every length class, one after the other on this thread (sessions of one thread share
            // whatever the decoder keeps between calls)
            extra = json!({"class": format!("amfwalk:{}", c["dir"].as_str().unwrap_or("up"))});
            let mut lens: Vec<usize> = Vec::new();
            let mut x = 1.0f64;
            while x < 66000.0 { lens.push(x as usize); x *= 1.19; }
            for k in 1..=16u32 { for d in [-1i64, 0, 1].iter() { lens.push(((1i64 << k) + d) as usize); } }
            lens.retain(|l| *l <= 65535);
            lens.sort();
            lens.dedup();
            if c["dir"] == "down" { lens.reverse(); }
            let mut total = 0usize;
            let mut res = "ok";
            for l in lens {
                let mut b: Vec<u8> = vec![2, (l >> 8) as u8, l as u8];
                b.extend(vec![b's'; l]);
                b.extend_from_slice(&[3, (l >> 8) as u8, l as u8]);
                b.extend(vec![b'n'; l]);
                b.extend_from_slice(&[5, 0, 0, 9]);
                total += b.len();
                match rml_amf0::deserialize(&mut std::io::Cursor::new(&b[..])) {
                    Ok(v) => { if v.len() != 2 { res = "err"; } }
                    Err(_) => { if l > 0 { res = "err"; } }
                }
            }
            (res.to_string(), total)
        }),
        "amfseq" => guard(&mut || {
            // same thread: first a message with one long string (and a long property name), then one with many short strings;
            // only the second decode is measured
            let big = c["big"].as_u64().unwrap_or(65535) as usize;
            let n = c["n"].as_u64().unwrap_or(2000) as usize;
            extra = json!({"class": format!("amfseq:{}", big)});
            let mut first: Vec<u8> = Vec::new();
            if big <= 65535 {
                first.extend_from_slice(&[2, (big >> 8) as u8, big as u8]);
            } else {
                first.push(12);
                first.extend_from_slice(&(big as u32).to_be_bytes());
            }
            first.extend(vec![b'x'; big]);
            first.extend_from_slice(&[3, 0xFF, 0xFF]);
            first.extend(vec![b'n'; 65535]);
            first.extend_from_slice(&[5, 0, 0, 9]);
            let mut second: Vec<u8> = Vec::new();
            for i in 0..n {
                second.extend_from_slice(&[2, 0, 3, b'a', b'b', (i % 26) as u8 + b'a']);
            }
            let _ = rml_amf0::deserialize(&mut std::io::Cursor::new(&first[..]));
            let _ = rml_amf0::deserialize(&mut std::io::Cursor::new(&second[..]));
            drop(first); // (the harness' own buffer must not count)
            PEAK.store(CUR.load(Ordering::Relaxed), Ordering::Relaxed);
            let r = rml_amf0::deserialize(&mut std::io::Cursor::new(&second[..]));
            (ok_err(r.as_ref().map(|_| ()).map_err(|_| ())).to_string(), second.len())
        }),
        "deser" => guard(&mut || {
            let (stream, class) = hostile_stream(c["class"].as_u64().unwrap_or(0) as usize, &mut rng);
            extra = json!({"class": class});
            // what the harness allocated while BUILDING the input is not the library's doing: measure from here
            PEAK.store(CUR.load(Ordering::Relaxed), Ordering::Relaxed);
            if std::env::var("VH_DUMP").is_ok() {
                eprintln!("stream {}", stream.iter().map(|b| format!("{:02x}", b)).collect::<String>());
            }
            let mut d = ChunkDeserializer::new();
            let mut pos = 0;
            let mut res = "ok";
            let mut iters = 0u64;
            for n in cut_sizes(&mut rng, c["cut"].as_u64().unwrap_or(0) as usize, stream.len()) {
                let mut first = true;
                loop {
                    iters += 1;
                    let r = if first { d.get_next_message(&stream[pos..pos + n]) } else { d.get_next_message(&[]) };
                    first = false;
                    match r {
                        Ok(Some(p)) => {
                            if p.type_id == 1 && p.data.len() >= 4 {
                                let sz = u32::from_be_bytes([p.data[0], p.data[1], p.data[2], p.data[3]]);
                                let _ = d.set_max_chunk_size(sz as usize);
                            }
                        }
                        Ok(None) => break,
                        Err(_) => { res = "err"; break; }
                    }
                    if iters > 5_000_000 { return ("hang:no progress".to_string(), stream.len()); }
                }
                pos += n;
                if res == "err" { break; }
            }
            (res.to_string(), stream.len())
        }),
        "msg" => guard(&mut || {
            let m = hostile_message(c["idx"].as_u64().unwrap_or(0) as usize, &mut rng);
            match m {
                Some((ty, msid, body, class)) => {
                    extra = json!({"class": class});
                    let n = body.len();
                    let p = MessagePayload { timestamp: RtmpTimestamp::new(1), type_id: ty, message_stream_id: msid, data: Bytes::from(body) };
                    (ok_err(p.to_rtmp_message()).to_string(), n)
                }
                None => ("ok".to_string(), 0),
            }
        }),
        "server" | "client" => guard(&mut || {
            let state = c["state"].as_u64().unwrap_or(0) as usize;
            let m = hostile_message(c["idx"].as_u64().unwrap_or(0) as usize, &mut rng);
            let (ty, msid, body, class) = match m { Some(x) => x, None => return ("ok".to_string(), 0) };
            extra = json!({"class": class, "state": state});
            let cut = c["cut"].as_u64().unwrap_or(0) as usize;
            let mut res = "ok";
            let mut total = 0usize;
            if t == "server" {
                let (mut srv, mut peer) = match server_in_state(state) { Some(x) => x, None => return ("err".to_string(), 0) };
                let mut bytes = peer.encode_raw(ty, body, 3, msid);
                // with a following message in the same input, or with the input ending exactly on the hostile message
                if c["tail"].as_bool().unwrap_or(true) {
                    bytes.extend(peer.encode(RtmpMessage::UserControl { event_type: UserControlEventType::PingRequest, stream_id: None, buffer_length: None, timestamp: Some(RtmpTimestamp::new(9)) }, 4, 0));
                }
                total = bytes.len();
                let mut pos = 0;
                for n in cut_sizes(&mut rng, cut, bytes.len()) {
                    if srv.handle_input(&bytes[pos..pos + n]).is_err() { res = "err"; }
                    pos += n;
                }
            } else {
                let (mut cl, mut peer) = match client_in_state(state) { Some(x) => x, None => return ("err".to_string(), 0) };
                let mut bytes = peer.encode_raw(ty, body, 3, msid);
                if c["tail"].as_bool().unwrap_or(true) {
                    bytes.extend(peer.encode(RtmpMessage::UserControl { event_type: UserControlEventType::PingRequest, stream_id: None, buffer_length: None, timestamp: Some(RtmpTimestamp::new(9)) }, 4, 0));
                }
                total = bytes.len();
                let mut pos = 0;
                for n in cut_sizes(&mut rng, cut, bytes.len()) {
                    if cl.handle_input(&bytes[pos..pos + n]).is_err() { res = "err"; }
                    pos += n;
                }
            }
            (res.to_string(), total)
        }),
        "longhaul" => guard(&mut || {
            // a state that is only reachable after gigabytes of traffic: the peer announced a window close to 2^32 and
            // keeps sending (one 16 MiB media message per call) until more than 2^32 bytes have arrived since then
            let win = c["win"].as_u64().unwrap_or(0xFFFF_FFFF) as u32;
            let side = c["side"].as_str().unwrap_or("server");
            extra = json!({"class": format!("longhaul:{}:{}", side, win), "state": 0});
            let mut head: Vec<u8> = Vec::new();
            // SetChunkSize 2^24 (so that a 16 MiB message is one chunk), WindowAcknowledgement win - both on csid 2
            head.extend_from_slice(&[2, 0, 0, 0, 0, 0, 4, 1, 0, 0, 0, 0, 1, 0, 0, 0]);
            head.extend_from_slice(&[2, 0, 0, 0, 0, 0, 4, 5, 0, 0, 0, 0]);
            head.extend_from_slice(&win.to_be_bytes());
            let len = 16_777_215usize;
            // video for the server (ignored while nobody publishes); a type the client hands back untouched for the client
            let mut msg: Vec<u8> = vec![6, 0, 0, 0, 0xFF, 0xFF, 0xFF, if side == "server" { 9 } else { 22 }, 1, 0, 0, 0];
            msg.resize(12 + len, 0x5A);
            let calls = ((1u64 << 32) + (1u64 << 25)) / (msg.len() as u64) + 1;
            let mut total = head.len();
            let mut res = "ok";
            if side == "server" {
                let (mut srv, _) = ServerSession::new(ServerSessionConfig::new()).unwrap();
                if srv.handle_input(&head).is_err() { res = "err"; }
                for _ in 0..calls {
                    if srv.handle_input(&msg).is_err() { res = "err"; break; }
                    total += msg.len();
                }
            } else {
                let (mut cl, _) = ClientSession::new(ClientSessionConfig::new()).unwrap();
                if let Err(e) = cl.handle_input(&head) { res = "err"; extra["note"] = json!(format!("{:?}", e)); }
                for _ in 0..calls {
                    if let Err(e) = cl.handle_input(&msg) { res = "err"; extra["note"] = json!(format!("{:?}", e)); break; }
                    total += msg.len();
                }
            }
            (res.to_string(), total)
        }),
        "hs" => guard(&mut || {
            let class = c["class"].as_u64().unwrap_or(0);
            let role = if seed % 2 == 0 { PeerType::Server } else { PeerType::Client };
            let mut h = Handshake::new(role);
            let bytes: Vec<u8> = match class {
                0 => { let mut b = vec![*rng.pick(&[0u8, 1, 2, 4, 6, 255])]; b.extend(rng.bytes(3072)); b }
                1 => { let mut b = vec![3u8]; let n = *rng.pick(&[0usize, 1, 1535, 1536, 1537, 3071, 3072, 3073, 10000]); b.extend(rng.bytes(n)); b }
                2 => { let mut b = vec![3u8]; b.extend(vec![0u8; 3072]); b }
                3 => { let mut b = vec![3u8]; b.extend(vec![0xFFu8; 3072 + 40]); b }
                _ => { let n = rng.range(0, 4000) as usize; rng.bytes(n) }
            };
            extra = json!({"class": format!("hs:{}", class)});
            let mut pos = 0;
            let mut res = "ok";
            for n in cut_sizes(&mut rng, c["cut"].as_u64().unwrap_or(0) as usize, bytes.len()) {
                if h.process_bytes(&bytes[pos..pos + n]).is_err() { res = "err"; break; }
                pos += n;
            }
            (res.to_string(), bytes.len())
        }),
        "cfg" => {
            let cfg = c["cfg"].as_str().unwrap_or("");
            let entry = c["entry"].as_str().unwrap_or("");
            let v = c["value"].as_u64().unwrap_or(0) as u32;
            let n = c["n"].as_u64().unwrap_or(0) as usize;
            extra = json!({"cfg": cfg, "entry": entry, "v": w(v), "n": n, "works": false});
            if cfg == "chunk_size_wide" {
                // the deserializer takes a usize: values above 2^32 whose low half looks like a legal size
                let hi = c["hi"].as_u64().unwrap_or(1) as usize;
                extra["hi"] = json!(hi);
                let mut de = ChunkDeserializer::new();
                let r = catch_unwind(AssertUnwindSafe(|| de.set_max_chunk_size((hi << 32) | v as usize)));
                let res = match r { Ok(Ok(())) => "ok".to_string(), Ok(Err(_)) => "err".to_string(), Err(p) => format!("panic:{}", panic_msg(p)) };
                return (res, 0, extra);
            }
            let (r, works) = run_cfg(cfg, entry, v, n);
            extra["works"] = json!(works);
            // the case's own buffers (payload, packet, decoded copy) are part of what is measured
            (r, n)
        }
        _ => ("ok".to_string(), 0),
    };
    (res, rx, extra)
}

/// a tiny C01-style probe: does a codec configured with this value still carry messages?
fn roundtrip_works(ser: &mut ChunkSerializer, de: &mut ChunkDeserializer, lens: &[usize]) -> bool {
    for (i, &l) in lens.iter().enumerate() {
        let data: Vec<u8> = (0..l).map(|k| (k * 31 + i) as u8).collect();
        let m = MessagePayload { timestamp: RtmpTimestamp::new(i as u32 * 40), type_id: 9, message_stream_id: 1, data: Bytes::from(data.clone()) };
        let p = match ser.serialize(&m, false, false) { Ok(p) => p, Err(_) => return false };
        let mut got = None;
        let mut first = true;
        loop {
            match if first { de.get_next_message(&p.bytes) } else { de.get_next_message(&[]) } {
                Ok(Some(x)) => { got = Some(x); }
                Ok(None) => break,
                Err(_) => return false,
            }
            first = false;
        }
        match got {
            Some(x) => if x.data[..] != data[..] || x.timestamp.value != i as u32 * 40 { return false; },
            None => return false,
        }
    }
    true
}

fn run_cfg(cfg: &str, entry: &str, v: u32, n: usize) -> (String, bool) {
    let r = catch_unwind(AssertUnwindSafe(|| -> (String, bool) {
        match (cfg, entry) {
            ("chunk_size", "ser.set_max_chunk_size") => {
                let mut ser = ChunkSerializer::new();
                let mut de = ChunkDeserializer::new();
                match ser.set_max_chunk_size(v, RtmpTimestamp::new(0)) {
                    Err(_) => ("err".into(), false),
                    Ok(p) => {
                        let fed = de.get_next_message(&p.bytes).is_ok() && de.set_max_chunk_size(v as usize).is_ok();
                        let lens: Vec<usize> = if v >= 64 { vec![0, 1, 300, 70000] } else { vec![0, 1, 3, 40] };
                        ("ok".into(), fed && roundtrip_works(&mut ser, &mut de, &lens))
                    }
                }
            }
            ("chunk_size", "de.set_max_chunk_size") => {
                let mut de = ChunkDeserializer::new();
                match de.set_max_chunk_size(v as usize) {
                    Err(_) => ("err".into(), false),
                    Ok(()) => {
                        let mut ser = ChunkSerializer::new();
                        let ok = ser.set_max_chunk_size(v, RtmpTimestamp::new(0)).is_ok();
                        let lens: Vec<usize> = if v >= 64 { vec![0, 1, 300, 70000] } else { vec![0, 1, 3, 40] };
                        ("ok".into(), ok && roundtrip_works(&mut ser, &mut de, &lens))
                    }
                }
            }
            ("chunk_size", "server.config") | ("window", "server.config") | ("bandwidth", "server.config") => {
                let mut c = ServerSessionConfig::new();
                match cfg { "chunk_size" => c.chunk_size = v, "window" => c.window_ack_size = v, _ => c.peer_bandwidth = v }
                let c2 = c.clone();
                match ServerSession::new(c) {
                    Err(_) => ("err".into(), false),
                    Ok((mut srv, rs)) => {
                        let mut peer = Peer::new();
                        let mut good = true;
                        for r in rs.iter() {
                            if let ServerSessionResult::OutboundResponse(p) = r {
                                for o in peer.decode(p) { if o["msg"]["k"] == "Undecodable" { good = false; } }
                            }
                        }
                        // the session must still talk: a ping is echoed and media goes out decodable
                        let b = peer.encode(RtmpMessage::UserControl { event_type: UserControlEventType::PingRequest, stream_id: None, buffer_length: None, timestamp: Some(RtmpTimestamp::new(5)) }, 0, 0);
                        match srv.handle_input(&b) {
                            Ok(rs) => { let mut echoed = false; for r in rs.iter() { if let ServerSessionResult::OutboundResponse(p) = r { for o in peer.decode(p) { if o["msg"]["et"] == "PingResponse" { echoed = true; } } } } good &= echoed; }
                            Err(_) => good = false,
                        }
                        let len = if v >= 64 || cfg != "chunk_size" { 5000 } else { 40 };
                        match srv.send_video_data(1, Bytes::from(vec![7u8; len]), RtmpTimestamp::new(1), false) {
                            Ok(p) => { for o in peer.decode(&p) { if o["msg"]["k"] != "Video" { good = false; } } }
                            Err(_) => good = false,
                        }
                        // "C02 holds for it": complete dialogues with a real client session, whole and fragmented delivery
                        for (k, mode) in [0u64, 3, 2].iter().enumerate() {
                            let mut r2 = Rng::new(0x5EED ^ (v as u64) ^ ((k as u64) << 40));
                            good &= crate::interop::exchange(&mut r2, "quick", ClientSessionConfig::new(), c2.clone(), *mode).2;
                        }
                        ("ok".into(), good)
                    }
                }
            }
            ("chunk_size", "client.config") | ("window", "client.config") => {
                let mut c = ClientSessionConfig::new();
                if cfg == "chunk_size" { c.chunk_size = v } else { c.window_ack_size = v }
                let c2 = c.clone();
                match ClientSession::new(c) {
                    Err(_) => ("err".into(), false),
                    Ok((mut cl, _)) => {
                        // the chunk size only takes effect when the connection is accepted
                        let mut peer = Peer::new();
                        let mut good = true;
                        match cl.request_connection("live".into()) { Ok(ClientSessionResult::OutboundResponse(p)) => { peer.decode(&p); } _ => good = false }
                        let b = peer.encode(RtmpMessage::Amf0Command { command_name: "_result".into(), transaction_id: 1.0, command_object: Amf0Value::Null,
                                            additional_arguments: vec![obj(vec![("code", s("NetConnection.Connect.Success"))])] }, 0, 0);
                        match cl.handle_input(&b) {
                            Err(_) => return ("err".into(), false),
                            Ok(rs) => for r in rs.iter() { if let ClientSessionResult::OutboundResponse(p) = r { for o in peer.decode(p) { if o["msg"]["k"] == "Undecodable" { good = false; } } } },
                        }
                        match cl.send_ping_request() { Ok((p, _)) => { for o in peer.decode(&p) { if o["msg"]["et"] != "PingRequest" { good = false; } } } Err(_) => good = false }
                        for (k, mode) in [0u64, 3, 2].iter().enumerate() {
                            let mut r2 = Rng::new(0xC11E ^ (v as u64) ^ ((k as u64) << 40));
                            good &= crate::interop::exchange(&mut r2, "quick", c2.clone(), ServerSessionConfig::new(), *mode).2;
                        }
                        ("ok".into(), good)
                    }
                }
            }
            ("chunk_size", "inbound.SetChunkSize") => {
                // a peer announcing this size to a server session
                let (mut srv, _) = ServerSession::new(ServerSessionConfig::new()).unwrap();
                let mut ser = ChunkSerializer::new();
                let body = v.to_be_bytes().to_vec();
                let p = ser.serialize(&MessagePayload { timestamp: RtmpTimestamp::new(0), type_id: 1, message_stream_id: 0, data: Bytes::from(body) }, true, false).unwrap();
                match srv.handle_input(&p.bytes) {
                    Err(_) => ("err".into(), false),
                    Ok(_) => {
                        // the peer now really uses that size: a ping must still get through
                        let mut good = false;
                        let m = MessagePayload::from_rtmp_message(RtmpMessage::UserControl { event_type: UserControlEventType::PingRequest, stream_id: None, buffer_length: None, timestamp: Some(RtmpTimestamp::new(5)) }, RtmpTimestamp::new(0), 0).unwrap();
                        // serialize under size v by hand: ping bodies are 6 bytes
                        let mut wire = Vec::new();
                        let cs = v as usize;
                        let data = &m.data[..];
                        let mut off = 0;
                        let mut first = true;
                        while off < data.len() || first {
                            if first { wire.extend_from_slice(&[2, 0, 0, 0, 0, 0, 6, 4, 0, 0, 0, 0]); } else { wire.push(0xC2); }
                            let n = (data.len() - off).min(cs.max(1));
                            wire.extend_from_slice(&data[off..off + n]);
                            off += n;
                            first = false;
                        }
                        if let Ok(rs) = srv.handle_input(&wire) { good = rs.iter().any(|r| matches!(r, ServerSessionResult::OutboundResponse(_))); }
                        ("ok".into(), good)
                    }
                }
            }
            ("payload_len", _) => {
                let mut ser = ChunkSerializer::new();
                let cs = if v == 0 { 1 << 20 } else { v };
                let _ = ser.set_max_chunk_size(cs, RtmpTimestamp::new(0));
                let m = MessagePayload { timestamp: RtmpTimestamp::new(0), type_id: 9, message_stream_id: 1, data: Bytes::from(vec![1u8; n]) };
                match ser.serialize(&m, false, false) {
                    Err(_) => ("err".into(), false),
                    Ok(p) => {
                        let mut de = ChunkDeserializer::new();
                        let _ = de.set_max_chunk_size(cs as usize);
                        let got = de.get_next_message(&p.bytes);
                        ("ok".into(), matches!(got, Ok(Some(ref x)) if x.data.len() == n))
                    }
                }
            }
            ("string_len", _) => {
                // v = 1: the same BYTE length made of two-byte characters (limits are in bytes, not characters)
                let st = if v == 1 { "\u{e9}".repeat(n / 2) } else { "s".repeat(n) };
                // (a refused value sits between accepted ones: whatever was written before the refusal must not survive the call)
                let v = vec![Amf0Value::Number(7.0), Amf0Value::Utf8String(st), Amf0Value::Boolean(true)];
                match rml_amf0::serialize(&v) {
                    Err(_) => ("err".into(), false),
                    Ok(b) => ("ok".into(), rml_amf0::deserialize(&mut std::io::Cursor::new(b)).map(|x| x == v).unwrap_or(false)),
                }
            }
            ("name_len", _) => {
                let mut p = HashMap::new();
                p.insert(if v == 1 { "\u{e9}".repeat(n / 2) } else { "k".repeat(n) }, Amf0Value::Null);
                let v = vec![Amf0Value::Utf8String("a".into()), Amf0Value::Object(p), Amf0Value::Null];
                match rml_amf0::serialize(&v) {
                    Err(_) => ("err".into(), false),
                    Ok(b) => ("ok".into(), rml_amf0::deserialize(&mut std::io::Cursor::new(b)).map(|x| x == v).unwrap_or(false)),
                }
            }
            ("version", _) => {
                let mut c = ServerSessionConfig::new();
                c.fms_version = "v".repeat(n);
                match ServerSession::new(c) {
                    Err(_) => ("err".into(), false),
                    Ok((mut srv, _)) => {
                        // the version string is only used when a connection is accepted: that must not take the session down
                        let mut peer = Peer::new();
                        let b = peer.encode(RtmpMessage::Amf0Command { command_name: "connect".into(), transaction_id: 1.0, command_object: obj(vec![("app", s("live"))]), additional_arguments: vec![] }, 0, 0);
                        let ok = match srv.handle_input(&b) { Ok(_) => srv.accept_request(0).is_ok() == (n <= 65535), Err(_) => false };
                        ("ok".into(), ok)
                    }
                }
            }
            _ => ("ok".into(), true),
        }
    }));
    match r {
        Ok(x) => x,
        Err(p) => (format!("panic:{}", panic_msg(p)), false),
    }
}

pub fn child(cases_path: &str, start: usize) {
    quiet_panics();
    unsafe {
        let lim = libc::rlimit { rlim_cur: 12 << 30, rlim_max: 12 << 30 };
        libc::setrlimit(libc::RLIMIT_AS, &lim);
    }
    let f = std::fs::File::open(cases_path).expect("cases");
    let out = std::io::stdout();
    for (i, line) in BufReader::new(f).lines().enumerate() {
        if i < start { continue; }
        let c: Value = serde_json::from_str(&line.unwrap()).unwrap();
        {
            let mut o = out.lock();
            writeln!(o, "{}", json!({"ev":"Call","id":c["id"],"t":c["t"],"case":c})).unwrap();
            o.flush().unwrap();
        }
        let base = mem_reset();
        let t0 = Instant::now();
        let (res, rx, extra) = run_case(&c);
        let ms = t0.elapsed().as_millis() as u64;
        let peak = mem_peak_over(base);
        let short = if res == "ok" || res == "err" { res.clone() } else { res.chars().take(160).collect() };
        let mut ev = json!({"ev":"Return","id":c["id"],"res":short,"peakK":(peak + 1023) / 1024,"rxK":rx / 1024,"rx":rx,"ms":ms});
        if let Some(m) = extra.as_object() {
            for (k, v) in m { ev[k] = v.clone(); }
        }
        let mut o = out.lock();
        writeln!(o, "{}", ev).unwrap();
        o.flush().unwrap();
    }
}

pub fn cases(kind: &str, tier: &str, seed: u64) -> Vec<Value> {
    let mut v: Vec<Value> = Vec::new();
    let mut rng = Rng::new(seed ^ 0xC0FFEE);
    let thorough = tier == "thorough";
    match kind {
        "amfdeep" => {
            let mut words: Vec<String> = Vec::new();
            for a in ["A", "O", "E"].iter() {
                words.push(a.to_string());
                for b in ["A", "O", "E"].iter() {
                    words.push(format!("{}{}", a, b));
                    for c in ["A", "O", "E"].iter() {
                        words.push(format!("{}{}{}", a, b, c));
                    }
                }
            }
            let depths: Vec<u64> = if thorough { vec![10, 100, 1000, 10_000, 100_000, 1_000_000, 2_000_000] } else { vec![10, 100, 1000, 10_000, 100_000, 1_000_000] };
            for wd in words.iter() {
                for &d in depths.iter() {
                    if !thorough && wd.len() == 3 && d > 10_000 && d < 1_000_000 { continue; }
                    v.push(json!({"t":"amf","shape":"nest","word":wd,"depth":d}));
                }
            }
            v.push(json!({"t":"amf","shape":"nest","word":"A","depth": 16777215 / 5}));
            for kind in ["array", "ecma"].iter() {
                for &c in [0u64, 1, 2, 1 << 31, 0xFFFFFFFF].iter() {
                    v.push(json!({"t":"amf","shape":"lie","kind":kind,"count":c}));
                }
            }
            for kind in ["string", "name"].iter() {
                for &c in [0u64, 1, 2, 3, 65534].iter() {
                    v.push(json!({"t":"amf","shape":"lie","kind":kind,"count":c}));
                }
            }
            for &(b, l) in [(5u64, 1000u64), (5, 1 << 20), (10, 1 << 20), (3, 1 << 20), (0, 1 << 20), (2, 1 << 20)].iter() {
                v.push(json!({"t":"amf","shape":"flat","byte":b,"len":l}));
            }
            for kind in ["array", "ecma", "object"].iter() {
                for &c in [1024u64, 65536, 1 << 24, 0xFFFFFFFF].iter() {
                    for &n in [200u64, 2000, 20000].iter() {
                        if *kind == "object" && c != 1024 { continue; }
                        v.push(json!({"t":"amf","shape":"siblings","kind":kind,"count":c,"n":n}));
                    }
                }
            }
            for kind in ["ecma", "object"].iter() {
                for key in ["0", "1", "65536", "2000000", "16777215", "100000000", "2147483647", "4294967295", "4294967296", "18446744073709551615", "1e9", "-1"].iter() {
                    for &n in [1u64, 2, 5].iter() {
                        v.push(json!({"t":"amf","shape":"keys","kind":kind,"key":key,"n":n}));
                    }
                }
            }
            for kind in ["ecma", "object"].iter() {
                for pos in 58u64..70 {
                    for after in ["eof", "end", "badmarker", "value"].iter() {
                        v.push(json!({"t":"amf","shape":"longname","kind":kind,"pos":pos,"len":pos + 2 + (pos % 3),"after":after}));
                    }
                }
                for &pos in [126u64, 127, 128, 254, 255, 256, 1022, 1023, 1024].iter() {
                    v.push(json!({"t":"amf","shape":"longname","kind":kind,"pos":pos,"len":pos + 3,"after":"eof"}));
                    v.push(json!({"t":"amf","shape":"longname","kind":kind,"pos":pos,"len":pos + 3,"after":"end"}));
                }
            }
            for kind in ["array", "object"].iter() {
                for &levels in [4u64, 18, 30, 200].iter() {
                    v.push(json!({"t":"amf","shape":"refbomb","kind":kind,"levels":levels}));
                }
            }
            for kind in ["object", "ecma", "array"].iter() {
                for val in ["undef", "null", "bool", "num", "str", "arr", "obj", "bad"].iter() {
                    for &n in [1000u64, 50_000, 400_000].iter() {
                        if !thorough && n == 400_000 && *val != "undef" && *val != "null" { continue; }
                        v.push(json!({"t":"amf","shape":"props","kind":kind,"val":val,"n":n}));
                    }
                }
            }
            // errors must not leave anything behind either: the same too-deep / truncated input many times on one thread
            for &(depth, times) in [(100_000u64, 30_000u64), (300, 30_000)].iter() {
                v.push(json!({"t":"amfrepeat","depth":depth,"times":times}));
            }
            // string and name lengths walking up (and down) through every power of two on one thread
            v.push(json!({"t":"amfwalk","dir":"up"}));
            v.push(json!({"t":"amfwalk","dir":"down"}));
            // what one decode leaves behind must not make the NEXT decode on the same thread expensive
            for &big in [65535u64, 1 << 20, 4 << 20].iter() {
                v.push(json!({"t":"amfseq","big":big,"n":2000}));
            }
            for m in 0..256u64 {
                for &c in [0x04000000u64, 0xFFFFFFFF, 0x00010000].iter() {
                    v.push(json!({"t":"amf","shape":"marker","byte":m,"count":c}));
                }
            }
            if thorough {
                v.push(json!({"t":"amf","shape":"flat","byte":5,"len":16777215}));
                v.push(json!({"t":"amf","shape":"flat","byte":1,"len":16777215}));
            }
            for _ in 0..(if thorough { 600000 } else { 600 }) {
                v.push(json!({"t":"amf","shape":"garbage","len":*rng.pick(&[10u64, 100, 1000, 20000]),"seed":rng.next() >> 1}));
            }
        }
        "hostile" => {
            // the AMF0 decoder is part of "a message decoder": the structural shapes of the amfdeep suite (not its deep pumping)
            for c in cases("amfdeep", tier, seed).into_iter() {
                let keep = match c["t"].as_str().unwrap_or("") {
                    "amfwalk" | "amfseq" | "amfrepeat" => true,
                    "amf" => match c["shape"].as_str().unwrap_or("") {
                        "refbomb" | "longname" | "keys" | "lie" => true,
                        "props" => c["n"].as_u64().unwrap_or(0) <= 50_000,
                        _ => false,
                    },
                    _ => false,
                };
                if keep { v.push(c); }
            }
            let reps = if thorough { 96 } else { 1 };
            for _ in 0..reps {
                for class in 0..11u64 {
                    let n = if class == 8 { if thorough { 3000 } else { 400 } } else if class >= 9 { if thorough { 600 } else { 120 } } else if class == 4 { 200 } else if class == 7 { 4 } else { 12 };
                    for _ in 0..n {
                        for cut in 0..3u64 {
                            if class == 3 && cut == 1 { continue; }
                            v.push(json!({"t":"deser","class":class,"cut":cut,"seed":rng.next() >> 1}));
                        }
                    }
                }
            }
            let mut idx = 0;
            loop {
                let mut r2 = Rng::new(1);
                if hostile_message(idx, &mut r2).is_none() { break; }
                v.push(json!({"t":"msg","idx":idx,"seed":rng.next() >> 1}));
                for state in 0..5u64 {
                    if !thorough && idx % 5 != (state as usize) && idx % 3 != 0 { continue; }
                    v.push(json!({"t":"server","state":state,"idx":idx,"cut": (idx as u64 + state) % 3,"seed":rng.next() >> 1,"tail":true}));
                    v.push(json!({"t":"server","state":state,"idx":idx,"cut": (idx as u64 + state + 1) % 3,"seed":rng.next() >> 1,"tail":false}));
                }
                for state in 0..9u64 {
                    if !thorough && idx % 9 != (state as usize) && idx % 4 != 0 { continue; }
                    v.push(json!({"t":"client","state":state,"idx":idx,"cut": (idx as u64 + state) % 3,"seed":rng.next() >> 1,"tail":true}));
                    v.push(json!({"t":"client","state":state,"idx":idx,"cut": (idx as u64 + state + 1) % 3,"seed":rng.next() >> 1,"tail":false}));
                }
                idx += 1;
            }
            for side in ["server", "client"].iter() {
                v.push(json!({"t":"longhaul","side":side,"win":0xFFFF_FFFFu32,"seed":1}));
                if thorough {
                    v.push(json!({"t":"longhaul","side":side,"win":0xFF00_0000u32,"seed":1}));
                }
            }
            for class in 0..5u64 {
                for _ in 0..(if thorough { 200 } else { 30 }) {
                    v.push(json!({"t":"hs","class":class,"cut":rng.below(3),"seed":rng.next() >> 1}));
                }
            }
        }
        "config" => {
            let cs: [u32; 12] = [0, 1, 2, 127, 128, 129, 4096, 0x7FFFFFFE, 0x7FFFFFFF, 0x80000000, 0x80000001, 0xFFFFFFFF];
            for entry in ["ser.set_max_chunk_size", "de.set_max_chunk_size", "server.config", "client.config", "inbound.SetChunkSize"].iter() {
                for &x in cs.iter() {
                    v.push(json!({"t":"cfg","cfg":"chunk_size","entry":entry,"value":x}));
                }
            }
            for &hi in [1u64, 2, 0x7FFF_FFFF, 0xFFFF_FFFF].iter() {
                for &x in [0u32, 1, 128, 4096, 0x7FFFFFFF, 0x80000000, 0xFFFFFFFF].iter() {
                    v.push(json!({"t":"cfg","cfg":"chunk_size_wide","entry":"de.set_max_chunk_size","value":x,"hi":hi}));
                }
            }
            for entry in ["server.config", "client.config"].iter() {
                for &x in [0u32, 1, 1 << 31, 0xFFFFFFFF].iter() {
                    v.push(json!({"t":"cfg","cfg":"window","entry":entry,"value":x}));
                }
            }
            for &x in [0u32, 1, 1 << 31, 0xFFFFFFFF].iter() {
                v.push(json!({"t":"cfg","cfg":"bandwidth","entry":"server.config","value":x}));
            }
            for &cs in [0u64, 16777215, 16777216, 0x7FFFFFFF].iter() {
                for &n in [0u64, 1, 16777214, 16777215, 16777216, 16777217].iter() {
                    v.push(json!({"t":"cfg","cfg":"payload_len","entry":"ser.serialize","n":n,"value":cs}));
                }
            }
            for &n in [0u64, 1, 65534, 65535, 65536, 3, 70000, 65535, 65537, 2].iter() {
                v.push(json!({"t":"cfg","cfg":"string_len","entry":"amf0.serialize","n":n}));
                v.push(json!({"t":"cfg","cfg":"name_len","entry":"amf0.serialize","n":n.max(1)}));
            }
            for &n in [2u64, 65534, 65536, 80000, 131070].iter() {
                v.push(json!({"t":"cfg","cfg":"string_len","entry":"amf0.serialize","n":n,"value":1}));
                v.push(json!({"t":"cfg","cfg":"name_len","entry":"amf0.serialize","n":n,"value":1}));
            }
            for &n in [0u64, 1, 65535, 65536].iter() {
                v.push(json!({"t":"cfg","cfg":"version","entry":"server.config","n":n}));
            }
        }
        _ => {}
    }
    for (i, c) in v.iter_mut().enumerate() {
        c["id"] = json!(i + 1);
        if c.get("seed").is_none() {
            c["seed"] = json!(i as u64 + 1);
        }
    }
    v
}

pub fn parent(kind: &str, tier: &str, seed: u64, shard: u64, nshards: u64, out: &str) -> Value {
    let all = cases(kind, tier, seed);
    let mine: Vec<Value> = all.into_iter().enumerate().filter(|(i, _)| (*i as u64) % nshards == shard).map(|(_, c)| c).collect();
    let cases_path = format!("{}.cases", out);
    {
        let mut f = std::fs::File::create(&cases_path).unwrap();
        for c in &mine {
            writeln!(f, "{}", c).unwrap();
        }
    }
    let mut t = Trace::create(out);
    let exe = std::env::current_exe().unwrap();
    let mut next = 0usize;
    let mut died = 0usize;
    let case_limit = Duration::from_secs(if tier == "thorough" { 120 } else { 30 });
    while next < mine.len() {
        let mut ch = std::process::Command::new(&exe).arg("res-child").arg(&cases_path).arg(format!("{}", next))
            .stdout(std::process::Stdio::piped()).stderr(std::process::Stdio::null()).spawn().expect("spawn child");
        let stdout = ch.stdout.take().unwrap();
        let (tx, rx) = std::sync::mpsc::channel::<String>();
        let rd = std::thread::spawn(move || {
            for l in BufReader::new(stdout).lines() {
                match l { Ok(l) => { if tx.send(l).is_err() { break; } } Err(_) => break }
            }
        });
        let mut open: Option<Value> = None;
        loop {
            match rx.recv_timeout(case_limit) {
                Ok(line) => {
                    let v: Value = match serde_json::from_str(&line) { Ok(v) => v, Err(_) => continue };
                    if v["ev"] == "Call" { open = Some(v["id"].clone()); }
                    if v["ev"] == "Return" { open = None; next += 1; }
                    t.emit(&v);
                }
                Err(std::sync::mpsc::RecvTimeoutError::Timeout) => {
                    let _ = ch.kill();
                    let _ = ch.wait();
                    if let Some(id) = open.take() {
                        t.emit(&json!({"ev":"Timeout","id":id,"how":format!("no return within {} s", case_limit.as_secs())}));
                        next += 1;
                        died += 1;
                    }
                    break;
                }
                Err(std::sync::mpsc::RecvTimeoutError::Disconnected) => {
                    let st = ch.wait().ok();
                    if let Some(id) = open.take() {
                        use std::os::unix::process::ExitStatusExt;
                        let how = match st { Some(s) => match s.signal() { Some(sig) => format!("killed by signal {}", sig), None => format!("exit status {:?}", s.code()) }, None => "unknown".into() };
                        t.emit(&json!({"ev":"Died","id":id,"how":how}));
                        next += 1;
                        died += 1;
                    } else if next < mine.len() && st.map(|s| !s.success()).unwrap_or(true) {
                        // died between cases: skip nothing, just restart
                    } else {
                        next = mine.len().max(next);
                    }
                    break;
                }
            }
        }
        let _ = rd.join();
    }
    t.flush();
    let _ = std::fs::remove_file(&cases_path);
    json!({"kind":kind,"runs":mine.len(),"died":died,"lines":t.line,"path":out})
}
