//! Driver for RtmpTimestamp (C20).  Logs for Trace_Clock.tla.
use crate::util::*;
use rml_rtmp::time::RtmpTimestamp;
use serde_json::{json, Value};
use std::cmp::Ordering;

fn c(o: Ordering) -> i32 {
    match o { Ordering::Less => -1, Ordering::Equal => 0, Ordering::Greater => 1 }
}

fn sample(a: u32, d: u32) -> Value {
    let ta = RtmpTimestamp::new(a);
    let td = RtmpTimestamp::new(d);
    let sum = ta + td;
    let ops = json!({"lt": ta < td, "le": ta <= td, "gt": ta > td, "ge": ta >= td});
    let opsu = json!({"lt": ta < d, "le": ta <= d, "gt": ta > d, "ge": ta >= d});
    let uops = json!({"lt": a < td, "le": a <= td, "gt": a > td, "ge": a >= td});
    // a timestamp that came out of arithmetic (or of set()) is the same value as a fresh one holding that number
    fn same(x: RtmpTimestamp) -> bool {
        let f = RtmpTimestamp::new(x.value);
        x == f && f == x && x.cmp(&f) == Ordering::Equal && !(x < f) && !(x > f) && x == x.value
    }
    let fresh = {
        let diff = ta - td;
        let back = (ta + td) - td;
        let mut st = RtmpTimestamp::new(d);
        st.set(a);
        same(sum) && same(diff) && same(back) && back == ta && ta == back && same(st) && st == ta && same(ta + d) && same(ta - d)
    };
    json!({"ev":"Clk","a":w(a),"d":w(d),
           "add":w((ta + td).value),"addu":w((ta + d).value),
           "sub":w((ta - td).value),"subu":w((ta - d).value),
           "inv1":w(((ta + td) - td).value),"inv2":w(((ta - d) + d).value),
           "cmp":c(ta.cmp(&td)),"rcmp":c(td.cmp(&ta)),
           "eq": ta == td, "equ": ta == d, "ueq": a == td,
           "fresh": fresh,
           "ops":ops,"opsu":opsu,"uops":uops,
           "sumcmp":c(sum.cmp(&ta))})
}

pub fn generate(tier: &str, seed: u64, path: &str) -> Value {
    let mut t = Trace::create(path);
    let mut rng = Rng::new(seed ^ 2020);
    let tab: [u32; 16] = [0, 1, 2, 0xFFFFFF, 0x1000000, 0x7FFFFFFE, 0x7FFFFFFF, 0x80000000, 0x80000001, 0x80000002,
                          0xFFFFFFFE, 0xFFFFFFFF, 0x40000000, 0xC0000000, 10000, 4000000000];
    let mut n = 0usize;
    for &a in tab.iter() {
        for &d in tab.iter() {
            t.emit(&sample(a, d));
            // and the pair at the same distances from a
            t.emit(&sample(a, a.wrapping_add(d)));
            n += 2;
        }
    }
    let rnd = if tier == "thorough" { 200000 } else { 8000 };
    for _ in 0..rnd {
        let a = rng.u32();
        let d = match rng.below(4) {
            0 => a.wrapping_add(*rng.pick(&[0x7FFFFFFEu32, 0x7FFFFFFF, 0x80000000, 0x80000001, 1, 0xFFFFFFFF])),
            1 => *rng.pick(&tab),
            _ => rng.u32(),
        };
        t.emit(&sample(a, d));
        n += 1;
    }
    t.flush();
    json!({"kind":"clock","runs":n,"lines":t.line,"path":path})
}
