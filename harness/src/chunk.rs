//! Drivers for the chunk layer (C01, C06, C07, C08, C15, C16).
//! Every run is logged for Trace_Chunk.tla; nothing is judged here.
use crate::util::*;
use bytes::Bytes;
use rml_rtmp::chunk_io::{ChunkDeserializer, ChunkSerializer};
use rml_rtmp::messages::MessagePayload;
use rml_rtmp::time::RtmpTimestamp;
use serde_json::{json, Value};
use std::panic::{catch_unwind, AssertUnwindSafe};

pub const TS_TABLE: [u32; 14] = [
    0, 1, 2, 0xFFFFFE, 0xFFFFFF, 0x1000000, 0x1000001, 0x7FFFFFFE, 0x7FFFFFFF, 0x80000000,
    0x80000001, 0xFFFFFFFE, 0xFFFFFFFF, 1000,
];
pub const DELTA_TABLE: [u32; 12] = [
    0, 1, 33, 40, 0xFFFFFE, 0xFFFFFF, 0x1000000, 0x7FFFFFFF, 0x80000000, 0xFFFFFFFF, 0xFFFFFFD8, 23,
];
pub const MSID_TABLE: [u32; 8] = [0, 1, 2, 0xFFFF, 0x10000, 0x01020304, 0xFFFFFFFF, 5];
pub const TYPE_TABLE: [u8; 16] = [8, 9, 18, 20, 15, 17, 2, 3, 4, 5, 6, 0, 255, 22, 8, 9];
pub const CS_TABLE: [u32; 12] = [1, 2, 3, 127, 128, 129, 4096, 65535, 65536, 0x7FFFFFFF, 5, 64];
pub const CSID_TABLE: [u32; 11] = [2, 3, 4, 63, 64, 65, 319, 320, 321, 1000, 65599];

#[derive(Clone)]
pub struct M {
    pub ty: u8,
    pub msid: u32,
    pub ts: u32,
    pub data: Vec<u8>,
}

pub fn msg_json(m: &M) -> Value {
    json!({"ty": m.ty, "msid": w(m.msid), "ts": w(m.ts), "len": m.data.len(), "data": segs(&m.data)})
}
pub fn payload_json(p: &MessagePayload) -> Value {
    json!({"ty": p.type_id, "msid": w(p.message_stream_id), "ts": w(p.timestamp.value),
           "len": p.data.len(), "data": segs(&p.data[..])})
}

pub struct Limits {
    pub max_len: usize,
    pub max_chunks: usize,
}

fn gen_data(rng: &mut Rng, len: usize) -> Vec<u8> {
    if len <= 96 || rng.chance(1, 3) && len <= 2048 {
        rng.bytes(len)
    } else {
        // random head, constant body, random tail: compresses in the log, still position-sensitive
        let fill = rng.next() as u8;
        let mut v = vec![fill; len];
        let h = rng.below(17) as usize;
        for i in 0..h.min(len) {
            v[i] = rng.next() as u8;
        }
        let t = rng.below(9) as usize;
        for i in 0..t.min(len) {
            v[len - 1 - i] = rng.next() as u8;
        }
        // a marker somewhere inside so that a shifted slice is noticed
        if len > 40 {
            let p = rng.range(20, (len - 1) as u64) as usize;
            v[p] = fill.wrapping_add(1);
        }
        v
    }
}

fn gen_len(rng: &mut Rng, cs: u32, lim: &Limits) -> usize {
    let cs = cs as usize;
    let cap = lim.max_len.min(cs.saturating_mul(lim.max_chunks));
    let c = match rng.below(12) {
        0 => 0,
        1 => 1,
        2 => cs.saturating_sub(1),
        3 => cs,
        4 => cs.saturating_add(1),
        5 => cs.saturating_mul(2),
        6 => cs.saturating_mul(2).saturating_add(1),
        7 => cs.saturating_mul(3).saturating_add(1),
        8 => *rng.pick(&[127usize, 128, 129, 4095, 4096, 4097, 65535, 65536, 65537, 70000]),
        _ => rng.below((4 * cs.min(20000) + 2) as u64) as usize,
    };
    c.min(cap)
}

/// Message sequence generator with "streams" so that compressed headers actually occur.
pub struct MsgGen {
    hist: Vec<(u8, u32, u32, usize, u32)>, // ty, msid, last ts, last len, last delta
}
impl MsgGen {
    pub fn new() -> MsgGen {
        MsgGen { hist: Vec::new() }
    }
    pub fn next(&mut self, rng: &mut Rng, cs: u32, lim: &Limits, allow_ty1: bool) -> M {
        if !self.hist.is_empty() && rng.chance(7, 10) {
            let i = rng.below(self.hist.len() as u64) as usize;
            let (ty, msid, lts, llen, ldelta) = self.hist[i];
            let delta = if rng.chance(1, 2) { ldelta } else { *rng.pick(&DELTA_TABLE) };
            let ts = if rng.chance(1, 12) { *rng.pick(&TS_TABLE) } else { lts.wrapping_add(delta) };
            let cap = lim.max_len.min((cs as usize).saturating_mul(lim.max_chunks));
            let len = if rng.chance(1, 2) { llen.min(cap) } else { gen_len(rng, cs, lim) };
            let msid = if rng.chance(1, 10) { *rng.pick(&MSID_TABLE) } else { msid };
            // now and then a DIFFERENT type id that the library maps to the same chunk stream, with
            // everything else equal (same length, same stream): only the type id separates the headers
            let ty = if rng.chance(1, 5) {
                let sib: &[u8] = match ty { 2..=6 => &[2, 3, 4, 5, 6], 18 | 19 => &[18, 19], 8 | 9 | 1 => &[ty], _ => &[20, 15, 17, 0, 22, 255, 7, 10] };
                *rng.pick(sib)
            } else { ty };
            self.hist[i] = (ty, msid, ts, len, ts.wrapping_sub(lts));
            M { ty, msid, ts, data: gen_data(rng, len) }
        } else {
            let mut ty = if rng.chance(3, 4) { *rng.pick(&TYPE_TABLE) } else { rng.next() as u8 };
            if ty == 1 && !allow_ty1 {
                ty = 7;
            }
            // known table, or a small id (the N-th stream of a session: nothing caps N), or a power of two +- 1, or anything
            let msid = match rng.below(8) { 0..=3 => *rng.pick(&MSID_TABLE), 4 | 5 => rng.range(2, 70) as u32, 6 => (1u32 << rng.range(1, 31)).wrapping_add(rng.below(3) as u32).wrapping_sub(1), _ => rng.u32() };
            let ts = if rng.chance(3, 4) { *rng.pick(&TS_TABLE) } else { rng.u32() };
            let len = gen_len(rng, cs, lim);
            self.hist.push((ty, msid, ts, len, ts));
            if self.hist.len() > 6 {
                self.hist.remove(0);
            }
            M { ty, msid, ts, data: gen_data(rng, len) }
        }
    }
}

pub fn gen_cs(rng: &mut Rng) -> u32 {
    if rng.chance(4, 5) { *rng.pick(&CS_TABLE) } else { rng.range(1, 300) as u32 }
}

/// One run being assembled: events after the Reset line, completion count, stream bytes.
pub struct Run {
    pub base: usize, // line number of the Reset event
    pub ev: Vec<Value>,
    pub comps: usize,
    pub woff: usize,
    pub stream: Vec<u8>,
    pub mode: &'static str,
    pub minimal: bool,
    pub cs0: u32,
}
impl Run {
    pub fn new(t: &Trace, mode: &'static str, minimal: bool) -> Run {
        Run { base: t.line + 1, ev: Vec::new(), comps: 0, woff: 0, stream: Vec::new(), mode, minimal, cs0: 128 }
    }
    pub fn next_line(&self) -> usize {
        self.base + self.ev.len() + 1
    }
    pub fn push(&mut self, v: Value) {
        self.ev.push(v);
    }
    /// a wire event (Ser / Chunk): account for stream bytes and completion
    pub fn wire(&mut self, mut v: Value, bytes: &[u8], done: bool, omit: bool) {
        if !omit {
            self.stream.extend_from_slice(bytes);
            self.woff += bytes.len();
            if done {
                self.comps += 1;
            }
        }
        v["end"] = json!(self.woff);
        v["done"] = json!(done);
        v["omit"] = json!(omit);
        v["bytes"] = segs(bytes);
        self.ev.push(v);
    }
    pub fn finish(mut self, t: &mut Trace, c0: &mut usize, fedall: bool) {
        self.ev.push(json!({"ev":"End","fedall":fedall}));
        let next = self.base + self.ev.len() + 1;
        t.emit(&json!({"ev":"Reset","mode":self.mode,"minimal":self.minimal,"cs":self.cs0,
                       "c0":*c0,"c1":*c0 + self.comps,"next":next}));
        for e in &self.ev {
            t.emit(e);
        }
        *c0 += self.comps;
    }
}

#[derive(Clone, Copy, Debug)]
pub enum Part {
    OneShot,
    PerPacket,
    ByteWise,
    Random,
    HeaderCuts,
}

pub fn cuts(rng: &mut Rng, part: Part, total: usize, packet_ends: &[usize]) -> Vec<usize> {
    // returns piece lengths summing to total
    let mut pieces = Vec::new();
    match part {
        Part::OneShot => pieces.push(total),
        Part::PerPacket => {
            let mut last = 0;
            for &e in packet_ends {
                if e > last {
                    pieces.push(e - last);
                    last = e;
                }
            }
            if total > last {
                pieces.push(total - last);
            }
        }
        Part::ByteWise => {
            for _ in 0..total {
                pieces.push(1);
            }
        }
        Part::Random => {
            let mut left = total;
            while left > 0 {
                let n = match rng.below(4) {
                    0 => 1,
                    1 => rng.range(1, 16),
                    2 => rng.range(1, 300),
                    _ => rng.range(1, 5000),
                } as usize;
                let n = n.min(left);
                pieces.push(n);
                left -= n;
            }
        }
        Part::HeaderCuts => {
            // cut a few bytes after each packet boundary (inside the next header), and sometimes before
            let mut pts: Vec<usize> = Vec::new();
            for &e in packet_ends {
                let k = rng.range(0, 14) as usize;
                if e + k < total {
                    pts.push(e + k);
                }
                if rng.chance(1, 3) && e >= 2 {
                    pts.push(e - 1);
                }
            }
            pts.sort();
            pts.dedup();
            let mut last = 0;
            for p in pts {
                if p > last {
                    pieces.push(p - last);
                    last = p;
                }
            }
            if total > last {
                pieces.push(total - last);
            }
        }
    }
    if pieces.is_empty() {
        pieces.push(0);
    }
    pieces
}

/// Feed `stream` to a fresh library deserializer in the given pieces, honouring every decoded
/// chunk-size change before the next call (as the API documentation prescribes).
/// Returns (Feed events, everything fed without failure).
pub fn feed_phase(stream: &[u8], pieces: &[usize]) -> (Vec<Value>, bool) {
    let mut d = ChunkDeserializer::new();
    let mut evs = Vec::new();
    let mut pos = 0;
    for &n in pieces {
        let piece = &stream[pos..pos + n];
        pos += n;
        let mut outs: Vec<Value> = Vec::new();
        let res = catch_unwind(AssertUnwindSafe(|| -> Result<(), String> {
            let mut first = true;
            loop {
                let r = if first { d.get_next_message(piece) } else { d.get_next_message(&[]) };
                first = false;
                match r {
                    Ok(Some(p)) => {
                        if p.type_id == 1 && p.data.len() >= 4 {
                            let sz = u32::from_be_bytes([p.data[0], p.data[1], p.data[2], p.data[3]]) & 0x7FFF_FFFF;
                            d.set_max_chunk_size(sz as usize).map_err(|e| format!("err:setcs:{:?}", e))?;
                        }
                        outs.push(payload_json(&p));
                        // no run of this harness holds more than a few thousand messages: a flood is recorded as a failure of
                        // this call (and keeps the log readable) instead of a million-element event
                        if outs.len() > 50_000 {
                            outs.truncate(20);
                            return Err("err:runaway output: more than 50000 messages returned by one input call".to_string());
                        }
                    }
                    Ok(None) => return Ok(()),
                    Err(e) => return Err(format!("err:{:?}", e)),
                }
            }
        }));
        let res = match res {
            Ok(Ok(())) => "ok".to_string(),
            Ok(Err(s)) => s,
            Err(p) => format!("panic:{}", panic_msg(p)),
        };
        let ok = res == "ok";
        evs.push(json!({"ev":"Feed","n":n,"out":outs,"res":res}));
        if !ok {
            return (evs, false);
        }
    }
    (evs, true)
}

pub struct SerStep {
    pub m: M,
    pub fu: bool,
    pub cd: bool,
    pub setcs: Option<u32>,
}

/// Drive the library serializer; returns per-step (event json without wire fields, bytes, ok, drop)
pub fn run_serializer(run: &mut Run, steps: &[SerStep], omit_policy: &mut dyn FnMut(usize) -> bool) -> Vec<usize> {
    let mut ser = ChunkSerializer::new();
    let mut packet_ends = Vec::new();
    let mut k = 0usize;
    for s in steps {
        let line = run.next_line();
        let (res, bytes, drop) = match s.setcs {
            Some(sz) => match catch_unwind(AssertUnwindSafe(|| ser.set_max_chunk_size(sz, RtmpTimestamp::new(s.m.ts)))) {
                Ok(Ok(p)) => ("ok".to_string(), p.bytes, p.can_be_dropped),
                Ok(Err(e)) => (format!("err:{:?}", e), vec![], false),
                Err(p) => (format!("panic:{}", panic_msg(p)), vec![], false),
            },
            None => {
                let payload = MessagePayload {
                    timestamp: RtmpTimestamp::new(s.m.ts),
                    type_id: s.m.ty,
                    message_stream_id: s.m.msid,
                    data: Bytes::from(s.m.data.clone()),
                };
                match catch_unwind(AssertUnwindSafe(|| ser.serialize(&payload, s.fu, s.cd))) {
                    Ok(Ok(p)) => ("ok".to_string(), p.bytes, p.can_be_dropped),
                    Ok(Err(e)) => (format!("err:{:?}", e), vec![], false),
                    Err(p) => (format!("panic:{}", panic_msg(p)), vec![], false),
                }
            }
        };
        let ok = res == "ok";
        let omit = ok && drop && {
            k += 1;
            omit_policy(k)
        };
        let mut v = msg_json(&s.m);
        v["ev"] = json!("Ser");
        v["fu"] = json!(s.fu);
        v["cd"] = json!(s.cd);
        v["res"] = json!(res);
        v["drop"] = json!(drop);
        v["ml"] = json!(line);
        v["api"] = json!(if s.setcs.is_some() { "setcs" } else { "ser" });
        v["badsize"] = json!(match s.setcs { Some(sz) => sz > 0x7FFF_FFFF, None => false });
        run.wire(v, &bytes, ok, omit);
        packet_ends.push(run.woff);
    }
    packet_ends
}

pub fn gen_ser_steps(rng: &mut Rng, n: usize, lim: &Limits, drops: bool) -> Vec<SerStep> {
    let mut g = MsgGen::new();
    let mut cs = 128u32;
    let mut steps = Vec::new();
    let p_cs = rng.range(0, 3); // how often the chunk size changes
    for i in 0..n {
        if (i == 0 && rng.chance(1, 2)) || rng.below(12) < p_cs {
            let ncs = gen_cs(rng);
            let ts = if rng.chance(1, 2) { 0 } else { *rng.pick(&TS_TABLE) };
            steps.push(SerStep {
                m: M { ty: 1, msid: 0, ts, data: ncs.to_be_bytes().to_vec() },
                fu: true,
                cd: false,
                setcs: Some(ncs),
            });
            cs = ncs;
        } else if rng.chance(1, 60) {
            // a message the protocol cannot express (one byte above the limit): must be refused and must not disturb
            // anything - neither the header memory nor the droppable bookkeeping of its chunk stream
            let ty = *rng.pick(&[8u8, 9, 20]);
            steps.push(SerStep { m: M { ty, msid: 1, ts: *rng.pick(&TS_TABLE), data: vec![0u8; 16777216] }, fu: false, cd: rng.chance(1, 2), setcs: None });
        } else {
            let m = g.next(rng, cs, lim, false);
            let fu = rng.chance(1, 8);
            let cd = drops && (m.ty == 8 || m.ty == 9 || rng.chance(1, 6)) && rng.chance(1, 2);
            steps.push(SerStep { m: m.clone(), fu, cd, setcs: None });
            if cd && rng.chance(1, 10) {
                // droppable packet, then a refused call on the same chunk stream, then a sibling of the droppable one:
                // the refused call must leave the droppable bookkeeping alone (the sibling still starts with a full header)
                steps.push(SerStep { m: M { ty: m.ty, msid: m.msid, ts: m.ts.wrapping_add(5), data: vec![0u8; 16777216] }, fu: false, cd: rng.chance(1, 2), setcs: None });
                let mut sib = m.clone();
                sib.ts = m.ts.wrapping_add(*rng.pick(&[0u32, 7, 40]));
                steps.push(SerStep { m: sib, fu: false, cd: rng.chance(1, 3), setcs: None });
            }
        }
    }
    steps
}

// ---------------------------------------------------------------------------------------------
// Foreign (harness-encoded) streams: a deliberately dumb, field-by-field encoder.

#[derive(Clone)]
struct TxMem {
    ts: u32,
    delta: u32,
    len: usize,
    ty: u8,
    msid: u32,
}

fn basic_header(fmt: u8, csid: u32, long_form: bool) -> Vec<u8> {
    if csid <= 63 {
        vec![(fmt << 6) | csid as u8]
    } else if csid <= 319 && !long_form {
        vec![fmt << 6, (csid - 64) as u8]
    } else {
        let v = csid - 64;
        vec![(fmt << 6) | 1, (v & 0xFF) as u8, (v >> 8) as u8]
    }
}
fn u24(v: u32) -> [u8; 3] {
    [(v >> 16) as u8, (v >> 8) as u8, v as u8]
}

struct InFlight {
    ml: usize,
    m: M,
    got: usize,
    ext: Option<u32>,
    long_form: bool,
    setcs: Option<u32>,
}

/// One foreign stream.  interleave: chunks of messages on different csids may alternate.
pub fn run_foreign(run: &mut Run, rng: &mut Rng, nmsgs: usize, lim: &Limits, interleave: bool) {
    // one run in ten uses MANY chunk streams (the receiver must remember a header per csid, for all 65 598 of them)
    let many = !interleave && rng.chance(1, 10);
    // one interleaved run in four is CROWDED: 5-16 chunk streams, messages started eagerly and made multi-chunk, so that
    // many messages are partially received at the same time (RTMP sets no limit on that)
    let crowd = interleave && rng.chance(1, 4);
    let ncs = if many { rng.range(65, 140) as usize } else if crowd { if rng.chance(1, 4) { *rng.pick(&[31usize, 32, 33, 63, 64, 65]) } else { rng.range(5, 16) as usize } } else { rng.range(if interleave { 2 } else { 1 }, 4) as usize };
    let nmsgs = if many { ncs * 2 + 10 } else if crowd { nmsgs.max(ncs + 4) } else { nmsgs };
    let tiny = Limits { max_len: 6, max_chunks: 2 };
    let lim = if many { &tiny } else { lim };
    let mut csids: Vec<u32> = Vec::new();
    if interleave && !crowd && rng.chance(1, 3) {
        // an ALIASING family: chunk stream ids that differ in one byte / one bit of their encoded form (c, c+1, c+256, c+512, c^0x80):
        // a receiver that mis-assembles an id makes two of them collide
        let hi = rng.range(0, 254) as u32;
        let lo = if rng.chance(1, 2) { rng.range(192, 255) as u32 } else { rng.range(0, 255) as u32 };
        let c = 64 + hi * 256 + lo;
        for cand in [c, c + 256, c + 512, c + 1, c ^ 0x80].iter() {
            if *cand >= 2 && *cand <= 65599 && !csids.contains(cand) && csids.len() < 4 { csids.push(*cand); }
        }
    }
    let ncs = ncs.max(csids.len());
    while csids.len() < ncs {
        let c = if rng.chance(4, 5) { *rng.pick(&CSID_TABLE) } else { rng.range(2, 65599) as u32 };
        if !csids.contains(&c) {
            csids.push(c);
        }
    }
    let mut tx: std::collections::HashMap<u32, TxMem> = std::collections::HashMap::new();
    let mut fl: Vec<(u32, InFlight)> = Vec::new();
    let mut cs: u32 = 128;
    let mut g = MsgGen::new();
    let mut started = 0usize;
    let p_cs = rng.range(0, 2);
    loop {
        let can_start = started < nmsgs && (fl.is_empty() || (interleave && fl.len() < csids.len()));
        if !can_start && fl.is_empty() {
            break;
        }
        let start = can_start && (fl.is_empty() || rng.chance(if crowd { 3 } else { 1 }, if crowd { 4 } else { 3 }));
        if start {
            started += 1;
            let free: Vec<u32> = csids.iter().cloned().filter(|c| !fl.iter().any(|(fc, _)| fc == c)).collect();
            let c = if many && started <= csids.len() { csids[started - 1] } else { *rng.pick(&free) };
            let setcs = if rng.below(12) < p_cs { Some(gen_cs(rng)) } else { None };
            let mut m = match setcs {
                Some(sz) => M { ty: 1, msid: 0, ts: *rng.pick(&TS_TABLE), data: sz.to_be_bytes().to_vec() },
                None => g.next(rng, cs, lim, false),
            };
            if crowd && setcs.is_none() && cs <= 4096 && m.data.len() <= cs as usize {
                let n = cs as usize + 1 + rng.below(2 * cs as u64) as usize;
                m.data = gen_data(rng, n);
            }
            // legal formats on this csid
            let mut legal = vec![0u8];
            if let Some(p) = tx.get(&c) {
                // steer towards compressible headers now and then
                if rng.chance(1, 2) {
                    m.msid = p.msid;
                    if rng.chance(1, 2) && setcs.is_none() && p.ty != 1 {
                        m.ty = p.ty;
                        let l = p.len.min(lim.max_len.min((cs as usize).saturating_mul(lim.max_chunks)));
                        if l == p.len {
                            m.data = gen_data(rng, l);
                        }
                        if rng.chance(1, 2) {
                            m.ts = p.ts.wrapping_add(p.delta);
                        }
                    }
                }
                if m.msid == p.msid {
                    legal.push(1);
                    if m.ty == p.ty && m.data.len() == p.len {
                        legal.push(2);
                        if m.ts.wrapping_sub(p.ts) == p.delta {
                            legal.push(3);
                        }
                    }
                }
            }
            // prefer the most compressed legal format half of the time
            let fmt = if rng.chance(1, 2) { *legal.last().unwrap() } else { *rng.pick(&legal) };
            let ml = run.next_line();
            let mut mj = msg_json(&m);
            mj["ev"] = json!("Msg");
            run.push(mj);
            let long_form = rng.chance(1, 3);
            let val = match fmt {
                0 => m.ts,
                3 => tx[&c].delta,
                _ => m.ts.wrapping_sub(tx[&c].ts),
            };
            let mut b = basic_header(fmt, c, long_form);
            if fmt <= 2 {
                b.extend_from_slice(&u24(val.min(0xFFFFFF)));
            }
            if fmt <= 1 {
                b.extend_from_slice(&u24(m.data.len() as u32));
                b.push(m.ty);
            }
            if fmt == 0 {
                b.extend_from_slice(&m.msid.to_le_bytes());
            }
            let ext = if val >= 0xFFFFFF { Some(val) } else { None };
            if let Some(e) = ext {
                b.extend_from_slice(&e.to_be_bytes());
            }
            let n = m.data.len().min(cs as usize);
            b.extend_from_slice(&m.data[..n]);
            tx.insert(c, TxMem { ts: m.ts, delta: val, len: m.data.len(), ty: m.ty, msid: m.msid });
            let done = n == m.data.len();
            run.wire(json!({"ev":"Chunk","ml":ml}), &b, done, false);
            if done {
                if let Some(sz) = setcs {
                    cs = sz;
                }
            } else {
                fl.push((c, InFlight { ml, m, got: n, ext, long_form, setcs }));
            }
        } else {
            let i = rng.below(fl.len() as u64) as usize;
            let c = fl[i].0;
            let (done, b, ml) = {
                let f = &mut fl[i].1;
                let mut b = basic_header(3, c, f.long_form);
                if let Some(e) = f.ext {
                    b.extend_from_slice(&e.to_be_bytes());
                }
                let n = (f.m.data.len() - f.got).min(cs as usize);
                b.extend_from_slice(&f.m.data[f.got..f.got + n]);
                f.got += n;
                (f.got == f.m.data.len(), b, f.ml)
            };
            run.wire(json!({"ev":"Chunk","ml":ml}), &b, done, false);
            if done {
                let (_, f) = fl.remove(i);
                if let Some(sz) = f.setcs {
                    cs = sz;
                }
            }
        }
    }
}

fn packet_ends_of(run: &Run) -> Vec<usize> {
    run.ev.iter().filter(|e| e.get("end").is_some()).map(|e| e["end"].as_u64().unwrap() as usize).collect()
}

fn do_feed(run: &mut Run, rng: &mut Rng, part: Part) -> bool {
    let ends = packet_ends_of(run);
    let stream = run.stream.clone();
    let pieces = cuts(rng, part, stream.len(), &ends);
    let (evs, all) = feed_phase(&stream, &pieces);
    for e in evs {
        run.push(e);
    }
    all
}

pub struct Plan {
    pub ser_all: usize,
    pub ser_fixed: usize,
    pub foreign: usize,
    pub interleaved: usize,
    pub big: usize,
    pub nmsgs: usize,
    pub lim: Limits,
}

pub fn plan(tier: &str) -> Plan {
    if tier == "thorough" {
        Plan { ser_all: 400, ser_fixed: 600, foreign: 600, interleaved: 200, big: 6, nmsgs: 40,
               lim: Limits { max_len: 70000, max_chunks: 48 } }
    } else {
        Plan { ser_all: 60, ser_fixed: 120, foreign: 120, interleaved: 40, big: 2, nmsgs: 24,
               lim: Limits { max_len: 70000, max_chunks: 24 } }
    }
}

/// Stage S2 for the chunk layer: replay the behaviours TLC printed from Gen_Chunk.tla (one JSON array of steps per
/// line) through the real serializer - once judged under every drop subset by the reference receiver ("all"), once
/// with exactly the drops the behaviour prescribes fed to the real deserializer ("fixed").  After the prescribed steps
/// two sibling messages per media type follow, so that whatever the last step did to the header memory shows.
pub fn generate_from_paths(paths: &str, seed: u64, shard: u64, nshards: u64, path: &str) -> Value {
    quiet_panics();
    let mut t = Trace::create(path);
    let mut c0 = 0usize;
    let mut rng = Rng::new(seed ^ shard.wrapping_mul(0x9E3779B9) ^ 66);
    let text = std::fs::read_to_string(paths).expect("paths file");
    let mut runs = 0usize;
    let mut msgs = 0usize;
    let mut npaths = 0usize;
    for (i, line) in text.lines().enumerate() {
        if line.trim().is_empty() || (i as u64) % nshards != shard {
            continue;
        }
        let steps_j: Vec<Value> = serde_json::from_str(line).expect("path json");
        npaths += 1;
        let mut steps: Vec<SerStep> = Vec::new();
        let mut dropped: Vec<bool> = Vec::new();
        let mut last_ts = 0u32;
        for (k, sj) in steps_j.iter().enumerate() {
            let ts = ((sj["ts"][0].as_u64().unwrap() as u32) << 16) | sj["ts"][1].as_u64().unwrap() as u32;
            let len = sj["len"].as_u64().unwrap() as usize;
            let ty = sj["ty"].as_u64().unwrap() as u8;
            let cd = sj["cd"].as_bool().unwrap();
            last_ts = ts;
            match sj["k"].as_str().unwrap() {
                "setcs" => {
                    let sz = sj["size"].as_u64().unwrap() as u32;
                    steps.push(SerStep { m: M { ty: 1, msid: 0, ts, data: sz.to_be_bytes().to_vec() }, fu: true, cd: false, setcs: Some(sz) });
                }
                "refused" => {
                    steps.push(SerStep { m: M { ty, msid: 1, ts, data: vec![0u8; len] }, fu: false, cd, setcs: None });
                }
                _ => {
                    let mut d = gen_data(&mut rng, len);
                    if len > 0 { d[0] = (k as u8) | 0x10; }
                    steps.push(SerStep { m: M { ty, msid: sj["msid"].as_u64().unwrap() as u32, ts, data: d }, fu: sj["full"].as_bool().unwrap(), cd, setcs: None });
                    if cd { dropped.push(sj["dropped"].as_bool().unwrap()); }
                }
            }
        }
        for (j, ty) in [9u8, 8, 9, 8].iter().enumerate() {
            let d = gen_data(&mut rng, 10);
            steps.push(SerStep { m: M { ty: *ty, msid: 1, ts: last_ts.wrapping_add(40 * (1 + (j as u32) / 2)), data: d }, fu: false, cd: false, setcs: None });
        }
        msgs += steps.len();
        {
            let mut run = Run::new(&t, "all", true);
            run_serializer(&mut run, &steps, &mut |_| false);
            run.finish(&mut t, &mut c0, false);
            runs += 1;
        }
        {
            let mut run = Run::new(&t, "fixed", true);
            let dr = dropped.clone();
            run_serializer(&mut run, &steps, &mut |k| dr.get(k - 1).copied().unwrap_or(false));
            let part = *rng.pick(&[Part::OneShot, Part::PerPacket, Part::Random, Part::HeaderCuts]);
            let all = do_feed(&mut run, &mut rng, part);
            run.finish(&mut t, &mut c0, all);
            runs += 1;
        }
    }
    t.flush();
    json!({"kind":"gen","runs":runs,"messages":msgs,"paths":npaths,"lines":t.line,"path":path})
}

/// Field-by-field encoder for explicitly prescribed chunk steps (behaviours printed by TLC from Gen_ChunkRx.tla).
struct ForeignEnc {
    tx: std::collections::HashMap<u32, TxMem>,
    fl: Vec<(u32, InFlight)>,
    cs: u32,
}
impl ForeignEnc {
    fn new() -> ForeignEnc {
        ForeignEnc { tx: std::collections::HashMap::new(), fl: Vec::new(), cs: 128 }
    }
    fn start(&mut self, run: &mut Run, c: u32, m: M, fmt: u8, long_form: bool, setcs: Option<u32>) {
        let ml = run.next_line();
        let mut mj = msg_json(&m);
        mj["ev"] = json!("Msg");
        run.push(mj);
        let val = match fmt {
            0 => m.ts,
            3 => self.tx[&c].delta,
            _ => m.ts.wrapping_sub(self.tx[&c].ts),
        };
        let mut b = basic_header(fmt, c, long_form);
        if fmt <= 2 {
            b.extend_from_slice(&u24(val.min(0xFFFFFF)));
        }
        if fmt <= 1 {
            b.extend_from_slice(&u24(m.data.len() as u32));
            b.push(m.ty);
        }
        if fmt == 0 {
            b.extend_from_slice(&m.msid.to_le_bytes());
        }
        let ext = if val >= 0xFFFFFF { Some(val) } else { None };
        if let Some(e) = ext {
            b.extend_from_slice(&e.to_be_bytes());
        }
        let n = m.data.len().min(self.cs as usize);
        b.extend_from_slice(&m.data[..n]);
        self.tx.insert(c, TxMem { ts: m.ts, delta: val, len: m.data.len(), ty: m.ty, msid: m.msid });
        let done = n == m.data.len();
        run.wire(json!({"ev":"Chunk","ml":ml}), &b, done, false);
        if done {
            if let Some(sz) = setcs {
                self.cs = sz;
            }
        } else {
            self.fl.push((c, InFlight { ml, m, got: n, ext, long_form, setcs }));
        }
    }
    fn cont(&mut self, run: &mut Run, c: u32) {
        let i = match self.fl.iter().position(|(fc, _)| *fc == c) { Some(i) => i, None => return };
        let cs = self.cs;
        let (done, b, ml) = {
            let f = &mut self.fl[i].1;
            let mut b = basic_header(3, c, f.long_form);
            if let Some(e) = f.ext {
                b.extend_from_slice(&e.to_be_bytes());
            }
            let n = (f.m.data.len() - f.got).min(cs as usize);
            b.extend_from_slice(&f.m.data[f.got..f.got + n]);
            f.got += n;
            (f.got == f.m.data.len(), b, f.ml)
        };
        run.wire(json!({"ev":"Chunk","ml":ml}), &b, done, false);
        if done {
            let (_, f) = self.fl.remove(i);
            if let Some(sz) = f.setcs {
                self.cs = sz;
            }
        }
    }
}

/// Stage S2 for the receiving side: replay the chunk-level behaviours TLC printed from Gen_ChunkRx.tla.  The prescribed
/// steps are encoded field by field, messages still in flight at the end are completed (round robin), two short
/// messages follow on every chunk stream used (most compressed legal header), and the stream is fed to the real
/// deserializer under two partitions.
pub fn generate_rx_from_paths(paths: &str, seed: u64, shard: u64, nshards: u64, path: &str) -> Value {
    quiet_panics();
    let mut t = Trace::create(path);
    let mut c0 = 0usize;
    let mut rng = Rng::new(seed ^ shard.wrapping_mul(0x9E3779B9) ^ 77);
    let text = std::fs::read_to_string(paths).expect("paths file");
    let mut runs = 0usize;
    let mut msgs = 0usize;
    let mut npaths = 0usize;
    for (i, line) in text.lines().enumerate() {
        if line.trim().is_empty() || (i as u64) % nshards != shard {
            continue;
        }
        let steps_j: Vec<Value> = serde_json::from_str(line).expect("path json");
        npaths += 1;
        let fork = rng.next();
        let parts = [Part::OneShot, Part::PerPacket, Part::Random, Part::HeaderCuts, Part::ByteWise];
        let p1 = parts[npaths % 2];
        let p2 = parts[2 + (rng.below(3) as usize)];
        for part in [p1, p2].iter() {
            let mut grng = Rng(fork);
            let mut run = Run::new(&t, "fixed", false);
            let mut enc = ForeignEnc::new();
            let mut used: Vec<u32> = Vec::new();
            let mut last_ts = 0u32;
            for (k, sj) in steps_j.iter().enumerate() {
                let c = sj["c"].as_u64().unwrap() as u32;
                if sj["k"] == "cont" {
                    enc.cont(&mut run, c);
                    continue;
                }
                let ts = ((sj["ts"][0].as_u64().unwrap() as u32) << 16) | sj["ts"][1].as_u64().unwrap() as u32;
                let len = sj["len"].as_u64().unwrap() as usize;
                let ty = sj["ty"].as_u64().unwrap() as u8;
                let size = sj["size"].as_u64().unwrap() as u32;
                let data = if ty == 1 { size.to_be_bytes().to_vec() } else { let mut d = gen_data(&mut grng, len); if len > 0 { d[0] = (k as u8) | 0x20; } d };
                let m = M { ty, msid: sj["msid"].as_u64().unwrap() as u32, ts, data };
                if !used.contains(&c) { used.push(c); }
                last_ts = ts;
                msgs += 1;
                enc.start(&mut run, c, m, sj["fmt"].as_u64().unwrap() as u8, sj["long"].as_bool().unwrap(), if size != 0 { Some(size) } else { None });
            }
            // complete what is still in flight, round robin
            while !enc.fl.is_empty() {
                let cs: Vec<u32> = enc.fl.iter().map(|(c, _)| *c).collect();
                for c in cs {
                    enc.cont(&mut run, c);
                }
            }
            // two siblings on every chunk stream used: type 1/2 header first, then type 3
            for c in used.iter() {
                let p = enc.tx[c].clone();
                for j in 0..2u32 {
                    let p2 = enc.tx[c].clone();
                    let m = M { ty: if p.ty == 1 { 9 } else { p.ty }, msid: p.msid, ts: last_ts.wrapping_add(40 * (j + 1)), data: gen_data(&mut grng, 10) };
                    let fmt = if m.ty != p2.ty || m.data.len() != p2.len { 1 } else if m.ts.wrapping_sub(p2.ts) != p2.delta { 2 } else { 3 };
                    msgs += 1;
                    enc.start(&mut run, *c, m, fmt, false, None);
                }
            }
            let part = if matches!(part, Part::ByteWise) && run.stream.len() > 6000 { Part::Random } else { *part };
            let all = do_feed(&mut run, &mut rng, part);
            run.finish(&mut t, &mut c0, all);
            runs += 1;
        }
    }
    t.flush();
    json!({"kind":"genrx","runs":runs,"messages":msgs,"paths":npaths,"lines":t.line,"path":path})
}

/// Which family of runs to generate into the file: lets the driver split work over TLC processes.
pub fn generate(kind: &str, tier: &str, seed: u64, shard: u64, nshards: u64, path: &str) -> Value {
    quiet_panics();
    let pl = plan(tier);
    let mut t = Trace::create(path);
    let mut c0 = 0usize;
    let mut rng = Rng::new(seed ^ (shard.wrapping_mul(0x51ED270B)) ^ match kind { "ser_all" => 11, "ser_fixed" => 22, "foreign" => 33, "interleaved" => 44, _ => 55 });
    let mut runs = 0usize;
    let mut msgs = 0usize;
    let share = |n: usize| -> usize { (n as u64 / nshards + if shard < n as u64 % nshards { 1 } else { 0 }) as usize };
    match kind {
        "ser_all" => {
            // directed: every message stream id 0..70 (and the usual boundaries) with every common type, one run
            if shard == 0 {
                let mut run = Run::new(&t, "all", true);
                let mut steps: Vec<SerStep> = Vec::new();
                let mut ids: Vec<u32> = (0..=70).collect();
                ids.extend_from_slice(&[127, 128, 255, 256, 257, 1023, 1024, 65535, 65536, 0xFFFFFF, 0x1000000, 0x7FFFFFFF, 0x80000000, 0xFFFFFFFF]);
                for (k, id) in ids.iter().enumerate() {
                    for ty in [9u8, 8, 18, 20].iter() {
                        steps.push(SerStep { m: M { ty: *ty, msid: *id, ts: 40 * k as u32, data: vec![*ty, k as u8, 3, 4, 5] }, fu: false, cd: false, setcs: None });
                    }
                }
                msgs += steps.len();
                run_serializer(&mut run, &steps, &mut |_| false);
                run.finish(&mut t, &mut c0, false);
                runs += 1;
            }
            // C07 + C08: library packets through the reference receiver, every drop subset
            for _ in 0..share(pl.ser_all) {
                let mut run = Run::new(&t, "all", true);
                let n = rng.range(1, pl.nmsgs as u64) as usize;
                let steps = gen_ser_steps(&mut rng, n, &pl.lim, true);
                msgs += steps.len();
                run_serializer(&mut run, &steps, &mut |_| false);
                run.finish(&mut t, &mut c0, false);
                runs += 1;
            }
        }
        "ser_fixed" => {
            // C01 + C08 (real deserializer on sampled subsets) + C15 (several partitions of one stream)
            for r in 0..share(pl.ser_fixed) {
                let n = rng.range(1, pl.nmsgs as u64) as usize;
                let steps = gen_ser_steps(&mut rng, n, &pl.lim, r % 2 == 0);
                msgs += steps.len();
                let pol = rng.below(4);
                let mask = rng.next();
                let parts = [Part::OneShot, Part::PerPacket, Part::Random, Part::HeaderCuts, Part::ByteWise];
                // the same stream under two different partitions
                let p1 = parts[(r % 2) as usize];
                let p2 = parts[2 + (rng.below(3) as usize)];
                for part in [p1, p2].iter() {
                    let mut run = Run::new(&t, "fixed", true);
                    run_serializer(&mut run, &steps, &mut |k| match pol {
                        0 => false,
                        1 => true,
                        2 => k % 2 == 0,
                        _ => (mask >> (k % 64)) & 1 == 1,
                    });
                    let part = if matches!(part, Part::ByteWise) && run.stream.len() > 6000 { Part::Random } else { *part };
                    let all = do_feed(&mut run, &mut rng, part);
                    run.finish(&mut t, &mut c0, all);
                    runs += 1;
                }
            }
        }
        "foreign" | "interleaved" => {
            let il = kind == "interleaved";
            let total = if il { pl.interleaved } else { pl.foreign };
            for r in 0..share(total) {
                let n = rng.range(1, pl.nmsgs as u64) as usize;
                let lim = Limits { max_len: pl.lim.max_len, max_chunks: if il { 6 } else { pl.lim.max_chunks } };
                // same stream (same rng fork) under two partitions
                let fork = rng.next();
                let parts = [Part::OneShot, Part::PerPacket, Part::Random, Part::HeaderCuts, Part::ByteWise];
                let p1 = parts[(r % 2) as usize];
                let p2 = parts[2 + (rng.below(3) as usize)];
                for part in [p1, p2].iter() {
                    let mut grng = Rng(fork);
                    let mut run = Run::new(&t, "fixed", false);
                    run_foreign(&mut run, &mut grng, n, &lim, il);
                    msgs += n;
                    let part = if matches!(part, Part::ByteWise) && run.stream.len() > 6000 { Part::Random } else { *part };
                    let all = do_feed(&mut run, &mut rng, part);
                    run.finish(&mut t, &mut c0, all);
                    runs += 1;
                }
            }
        }
        "big" => {
            // few messages, very large payloads (run segments keep the log small)
            for r in 0..share(pl.big) {
                let mut run = Run::new(&t, "fixed", true);
                let sizes: &[usize] = if tier == "thorough" { &[16777215, 1 << 20, 16777214, 65536 * 3 + 1] } else { &[16777215, 300000] };
                // the first run of every shard uses the largest legal chunk size (a 16 MiB message in ONE chunk)
                let cs = if r == 0 { 0x7FFFFFFF } else if r == 1 { 100_000 } else { *rng.pick(&[65536u32, 65537, 100_000, 1 << 20, 4096 * 16, 16777215, 16777216]) };
                let mut steps = vec![SerStep { m: M { ty: 1, msid: 0, ts: 0, data: cs.to_be_bytes().to_vec() }, fu: true, cd: false, setcs: Some(cs) }];
                for (i, &sz) in sizes.iter().enumerate() {
                    let mut d = vec![(r * 7 + i) as u8; sz];
                    d[0] = 1;
                    d[sz - 1] = 2;
                    d[sz / 2] = 3;
                    steps.push(SerStep { m: M { ty: 9, msid: 1, ts: *rng.pick(&TS_TABLE), data: d }, fu: false, cd: false, setcs: None });
                    steps.push(SerStep { m: M { ty: 8, msid: 1, ts: 5, data: vec![9; 7] }, fu: false, cd: false, setcs: None });
                }
                // one message above the limit must be refused
                steps.push(SerStep { m: M { ty: 9, msid: 1, ts: 9, data: vec![0; 16777216] }, fu: false, cd: false, setcs: None });
                msgs += steps.len();
                run_serializer(&mut run, &steps, &mut |_| false);
                // even runs in one piece; odd runs in big pieces (60 000 .. 140 000 bytes: a chunk is partly buffered with more than
                // 64 KiB of it already there) or in the usual small ones
                let all = if r % 2 == 0 { do_feed(&mut run, &mut rng, Part::OneShot) } else if r == 1 || rng.chance(2, 3) {
                    let stream = run.stream.clone();
                    let mut pieces = Vec::new();
                    let mut left = stream.len();
                    while left > 0 { let n = (rng.range(60_000, 140_000) as usize).min(left); pieces.push(n); left -= n; }
                    let (evs, all) = feed_phase(&stream, &pieces);
                    for e in evs { run.push(e); }
                    all
                } else { do_feed(&mut run, &mut rng, Part::Random) };
                run.finish(&mut t, &mut c0, all);
                runs += 1;
            }
        }
        _ => panic!("unknown chunk kind {}", kind),
    }
    t.flush();
    json!({"kind":kind,"runs":runs,"messages":msgs,"lines":t.line,"path":path})
}
