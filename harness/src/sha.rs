//! Independent SHA-256 (FIPS 180-4) and HMAC (RFC 2104), self-checked against RFC 4231 vectors.
//! Used only to log facts about the primitive for Trace_Handshake (C11).

const K: [u32; 64] = [
    0x428a2f98, 0x71374491, 0xb5c0fbcf, 0xe9b5dba5, 0x3956c25b, 0x59f111f1, 0x923f82a4, 0xab1c5ed5, 0xd807aa98, 0x12835b01,
    0x243185be, 0x550c7dc3, 0x72be5d74, 0x80deb1fe, 0x9bdc06a7, 0xc19bf174, 0xe49b69c1, 0xefbe4786, 0x0fc19dc6, 0x240ca1cc,
    0x2de92c6f, 0x4a7484aa, 0x5cb0a9dc, 0x76f988da, 0x983e5152, 0xa831c66d, 0xb00327c8, 0xbf597fc7, 0xc6e00bf3, 0xd5a79147,
    0x06ca6351, 0x14292967, 0x27b70a85, 0x2e1b2138, 0x4d2c6dfc, 0x53380d13, 0x650a7354, 0x766a0abb, 0x81c2c92e, 0x92722c85,
    0xa2bfe8a1, 0xa81a664b, 0xc24b8b70, 0xc76c51a3, 0xd192e819, 0xd6990624, 0xf40e3585, 0x106aa070, 0x19a4c116, 0x1e376c08,
    0x2748774c, 0x34b0bcb5, 0x391c0cb3, 0x4ed8aa4a, 0x5b9cca4f, 0x682e6ff3, 0x748f82ee, 0x78a5636f, 0x84c87814, 0x8cc70208,
    0x90befffa, 0xa4506ceb, 0xbef9a3f7, 0xc67178f2,
];

pub fn sha256(parts: &[&[u8]]) -> [u8; 32] {
    let mut h: [u32; 8] = [0x6a09e667, 0xbb67ae85, 0x3c6ef372, 0xa54ff53a, 0x510e527f, 0x9b05688c, 0x1f83d9ab, 0x5be0cd19];
    let total: usize = parts.iter().map(|p| p.len()).sum();
    let mut block = [0u8; 64];
    let mut fill = 0usize;
    let mut compress = |h: &mut [u32; 8], b: &[u8; 64]| {
        let mut w = [0u32; 64];
        for i in 0..16 {
            w[i] = u32::from_be_bytes([b[4 * i], b[4 * i + 1], b[4 * i + 2], b[4 * i + 3]]);
        }
        for i in 16..64 {
            let s0 = w[i - 15].rotate_right(7) ^ w[i - 15].rotate_right(18) ^ (w[i - 15] >> 3);
            let s1 = w[i - 2].rotate_right(17) ^ w[i - 2].rotate_right(19) ^ (w[i - 2] >> 10);
            w[i] = w[i - 16].wrapping_add(s0).wrapping_add(w[i - 7]).wrapping_add(s1);
        }
        let (mut a, mut b2, mut c, mut d, mut e, mut f, mut g, mut hh) = (h[0], h[1], h[2], h[3], h[4], h[5], h[6], h[7]);
        for i in 0..64 {
            let s1 = e.rotate_right(6) ^ e.rotate_right(11) ^ e.rotate_right(25);
            let ch = (e & f) ^ (!e & g);
            let t1 = hh.wrapping_add(s1).wrapping_add(ch).wrapping_add(K[i]).wrapping_add(w[i]);
            let s0 = a.rotate_right(2) ^ a.rotate_right(13) ^ a.rotate_right(22);
            let maj = (a & b2) ^ (a & c) ^ (b2 & c);
            let t2 = s0.wrapping_add(maj);
            hh = g; g = f; f = e; e = d.wrapping_add(t1); d = c; c = b2; b2 = a; a = t1.wrapping_add(t2);
        }
        h[0] = h[0].wrapping_add(a); h[1] = h[1].wrapping_add(b2); h[2] = h[2].wrapping_add(c); h[3] = h[3].wrapping_add(d);
        h[4] = h[4].wrapping_add(e); h[5] = h[5].wrapping_add(f); h[6] = h[6].wrapping_add(g); h[7] = h[7].wrapping_add(hh);
    };
    for p in parts {
        for &byte in p.iter() {
            block[fill] = byte;
            fill += 1;
            if fill == 64 {
                compress(&mut h, &block);
                fill = 0;
            }
        }
    }
    block[fill] = 0x80;
    fill += 1;
    if fill > 56 {
        for i in fill..64 { block[i] = 0; }
        compress(&mut h, &block);
        fill = 0;
    }
    for i in fill..56 { block[i] = 0; }
    block[56..64].copy_from_slice(&((total as u64) * 8).to_be_bytes());
    compress(&mut h, &block);
    let mut out = [0u8; 32];
    for i in 0..8 {
        out[4 * i..4 * i + 4].copy_from_slice(&h[i].to_be_bytes());
    }
    out
}

pub fn hmac(key: &[u8], parts: &[&[u8]]) -> [u8; 32] {
    let mut k = [0u8; 64];
    if key.len() > 64 {
        k[..32].copy_from_slice(&sha256(&[key]));
    } else {
        k[..key.len()].copy_from_slice(key);
    }
    let ipad: Vec<u8> = k.iter().map(|b| b ^ 0x36).collect();
    let opad: Vec<u8> = k.iter().map(|b| b ^ 0x5c).collect();
    let mut inner_parts: Vec<&[u8]> = vec![&ipad];
    inner_parts.extend_from_slice(parts);
    let inner = sha256(&inner_parts);
    sha256(&[&opad, &inner])
}

fn hex(b: &[u8]) -> String {
    b.iter().map(|x| format!("{:02x}", x)).collect()
}

/// RFC 4231 test cases 1, 2 and 6 (key longer than the block size); NIST "abc".
pub fn self_check() {
    assert_eq!(hex(&sha256(&[b"abc"])), "ba7816bf8f01cfea414140de5dae2223b00361a396177a9cb410ff61f20015ad");
    assert_eq!(hex(&hmac(&[0x0b; 20], &[b"Hi There"])), "b0344c61d8db38535ca8afceaf0bf12b881dc200c9833da726e9376c2e32cff7");
    assert_eq!(hex(&hmac(b"Jefe", &[b"what do ya want ", b"for nothing?"])), "5bdcc146bf60754e6a042426089575c75a003f089d2739839dec58b964ec3843");
    assert_eq!(hex(&hmac(&[0xaa; 131], &[b"Test Using Larger Than Block-Size Key - Hash Key First"])),
               "60e431591ee0b67f0d8a26aacbf5b77f8e0bc6213728c5140546040f0ee37f54");
}
