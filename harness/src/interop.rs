//! Two real sessions wired back to back by a scheduler that owns the two byte queues (C02).
//! Logs for Trace_Interop.tla.  Driver discipline: every packet of a result list goes on the wire
//! before any packet produced by a call made in reaction to an event of that list; script steps are
//! triggered by events, never by "the network is quiet".
use crate::sess::*;
use crate::util::*;
use bytes::Bytes;
use rml_rtmp::sessions::{ClientSession, ClientSessionConfig, ClientSessionEvent, ClientSessionResult, PublishRequestType, ServerSession,
                         ServerSessionConfig, ServerSessionEvent, ServerSessionResult, StreamMetadata};
use rml_rtmp::time::RtmpTimestamp;
use serde_json::{json, Value};
use std::collections::VecDeque;
use std::panic::{catch_unwind, AssertUnwindSafe};

enum Item {
    Audio(u32, Vec<u8>),
    Video(u32, Vec<u8>),
    Meta(StreamMetadata),
}

fn item_json(i: &Item) -> Value {
    match i {
        Item::Audio(ts, d) => json!({"kind":"audio","ts":w(*ts),"data":segs(d)}),
        Item::Video(ts, d) => json!({"kind":"video","ts":w(*ts),"data":segs(d)}),
        Item::Meta(m) => json!({"kind":"meta","meta":meta_json(m)}),
    }
}

struct World {
    c: ClientSession,
    s: ServerSession,
    c2s: VecDeque<u8>,
    s2c: VecDeque<u8>,
    clock: u64,
    log: Vec<Value>,
    failed: bool,
    // script state
    publish: bool,
    key: String,
    connected_client: bool,
    accepted_client: bool,
    play_sid: Option<u32>,
    received: usize,
    finished: bool,
    storm: bool,
}

impl World {
    fn tick(&mut self) {
        self.clock += 7;
        rml_rtmp::verif::set_clock(Some(self.clock));
    }
    fn err(&mut self, at: &str, res: String) {
        self.log.push(json!({"ev":"Err","where":at,"res":res}));
        self.failed = true;
    }
    /// results of a client call: bytes first (in order), then the events (reactions come later)
    fn client_results(&mut self, rs: Vec<ClientSessionResult>) -> Vec<ClientSessionEvent> {
        let mut evs = Vec::new();
        for r in rs {
            match r {
                ClientSessionResult::OutboundResponse(p) => self.c2s.extend(p.bytes.iter()),
                ClientSessionResult::RaisedEvent(e) => evs.push(e),
                ClientSessionResult::UnhandleableMessageReceived(_) => {}
            }
        }
        evs
    }
    fn server_results(&mut self, rs: Vec<ServerSessionResult>) -> Vec<ServerSessionEvent> {
        let mut evs = Vec::new();
        for r in rs {
            match r {
                ServerSessionResult::OutboundResponse(p) => self.s2c.extend(p.bytes.iter()),
                ServerSessionResult::RaisedEvent(e) => evs.push(e),
                ServerSessionResult::UnhandleableMessageReceived(_) => {}
            }
        }
        evs
    }
    fn client_call(&mut self, at: &str, f: &mut dyn FnMut(&mut ClientSession) -> Result<Vec<ClientSessionResult>, String>) -> bool {
        self.tick();
        let r = { let c = &mut self.c; catch_unwind(AssertUnwindSafe(|| f(c))) };
        match r {
            Ok(Ok(rs)) => { let evs = self.client_results(rs); self.react_client(evs); true }
            Ok(Err(e)) => { self.err(at, format!("err:{}", e)); false }
            Err(p) => { self.err(at, format!("panic:{}", panic_msg(p))); false }
        }
    }
    fn server_call(&mut self, at: &str, f: &mut dyn FnMut(&mut ServerSession) -> Result<Vec<ServerSessionResult>, String>) -> bool {
        self.tick();
        let r = { let s = &mut self.s; catch_unwind(AssertUnwindSafe(|| f(s))) };
        match r {
            Ok(Ok(rs)) => { let evs = self.server_results(rs); self.react_server(evs); true }
            Ok(Err(e)) => { self.err(at, format!("err:{}", e)); false }
            Err(p) => { self.err(at, format!("panic:{}", panic_msg(p))); false }
        }
    }
    fn react_client(&mut self, evs: Vec<ClientSessionEvent>) {
        for e in evs {
            match e {
                ClientSessionEvent::ConnectionRequestAccepted => {
                    self.log.push(json!({"ev":"Mark","what":"client_connected"}));
                    self.connected_client = true;
                    let key = self.key.clone();
                    if self.publish {
                        self.client_call("request_publishing", &mut |c| c.request_publishing(key.clone(), PublishRequestType::Live).map(|r| vec![r]).map_err(|e| format!("{:?}", e)));
                    } else {
                        self.client_call("request_playback", &mut |c| c.request_playback(key.clone()).map(|r| vec![r]).map_err(|e| format!("{:?}", e)));
                    }
                }
                ClientSessionEvent::PublishRequestAccepted | ClientSessionEvent::PlaybackRequestAccepted => {
                    self.log.push(json!({"ev":"Mark","what":"request_accepted"}));
                    self.accepted_client = true;
                }
                ClientSessionEvent::ConnectionRequestRejected { description } => self.err("client", format!("err:connection rejected {}", description)),
                ClientSessionEvent::AudioDataReceived { timestamp, data } => { self.received += 1; self.log.push(json!({"ev":"Recv","kind":"audio","ts":w(timestamp.value),"data":segs(&data[..]),"app":[],"key":[]})); }
                ClientSessionEvent::VideoDataReceived { timestamp, data } => { self.received += 1; self.log.push(json!({"ev":"Recv","kind":"video","ts":w(timestamp.value),"data":segs(&data[..]),"app":[],"key":[]})); }
                ClientSessionEvent::StreamMetadataReceived { metadata } => { self.received += 1; self.log.push(json!({"ev":"Recv","kind":"meta","meta":meta_json(&metadata),"app":[],"key":[]})); }
                _ => {}
            }
        }
    }
    fn react_server(&mut self, evs: Vec<ServerSessionEvent>) {
        for e in evs {
            match e {
                ServerSessionEvent::ConnectionRequested { request_id, app_name } => {
                    if self.server_call("accept connect", &mut |s| s.accept_request(request_id).map_err(|e| format!("{:?}", e))) {
                        self.log.push(json!({"ev":"Mark","what":"server_connected","app":app_name.as_bytes().to_vec()}));
                    }
                }
                ServerSessionEvent::PublishStreamRequested { request_id, app_name, stream_key, .. } => {
                    self.log.push(json!({"ev":"Mark","what":"request_surfaced","app":app_name.as_bytes().to_vec(),"key":stream_key.as_bytes().to_vec()}));
                    self.server_call("accept publish", &mut |s| s.accept_request(request_id).map_err(|e| format!("{:?}", e)));
                }
                ServerSessionEvent::PlayStreamRequested { request_id, app_name, stream_key, stream_id, .. } => {
                    self.log.push(json!({"ev":"Mark","what":"request_surfaced","app":app_name.as_bytes().to_vec(),"key":stream_key.as_bytes().to_vec()}));
                    if self.server_call("accept play", &mut |s| s.accept_request(request_id).map_err(|e| format!("{:?}", e))) {
                        self.play_sid = Some(stream_id);
                    }
                }
                ServerSessionEvent::PublishStreamFinished { app_name, stream_key } => { self.finished = true; self.log.push(json!({"ev":"Mark","what":"finished","kind":"publish","app":app_name.as_bytes().to_vec(),"key":stream_key.as_bytes().to_vec()})); }
                ServerSessionEvent::PlayStreamFinished { app_name, stream_key } => { self.finished = true; self.log.push(json!({"ev":"Mark","what":"finished","kind":"play","app":app_name.as_bytes().to_vec(),"key":stream_key.as_bytes().to_vec()})); }
                ServerSessionEvent::AudioDataReceived { app_name, stream_key, data, timestamp } => { self.received += 1; self.log.push(json!({"ev":"Recv","kind":"audio","ts":w(timestamp.value),"data":segs(&data[..]),"app":app_name.as_bytes().to_vec(),"key":stream_key.as_bytes().to_vec()})); }
                ServerSessionEvent::VideoDataReceived { app_name, stream_key, data, timestamp } => { self.received += 1; self.log.push(json!({"ev":"Recv","kind":"video","ts":w(timestamp.value),"data":segs(&data[..]),"app":app_name.as_bytes().to_vec(),"key":stream_key.as_bytes().to_vec()})); }
                ServerSessionEvent::StreamMetadataChanged { app_name, stream_key, metadata } => { self.received += 1; self.log.push(json!({"ev":"Recv","kind":"meta","meta":meta_json(&metadata),"app":app_name.as_bytes().to_vec(),"key":stream_key.as_bytes().to_vec()})); }
                _ => {}
            }
        }
    }
    /// deliver one fragment in one direction
    fn deliver(&mut self, to_server: bool, n: usize) {
        let piece: Vec<u8> = if to_server { self.c2s.drain(..n).collect() } else { self.s2c.drain(..n).collect() };
        if to_server {
            self.server_call("server.handle_input", &mut |s| s.handle_input(&piece).map_err(|e| format!("{:?}", e)));
        } else {
            self.client_call("client.handle_input", &mut |c| c.handle_input(&piece).map_err(|e| format!("{:?}", e)));
        }
    }
    /// run the network until the predicate holds or nothing is in flight
    fn pump(&mut self, rng: &mut Rng, mode: u64, until: &dyn Fn(&World) -> bool) {
        let mut guard = 0u64;
        while !self.failed && !until(self) && (!self.c2s.is_empty() || !self.s2c.is_empty()) {
            guard += 1;
            // with both windows tiny the exchange never falls silent: a pump then ends after a generous number of deliveries
            if self.storm && guard > 20_000 { break; }
            if guard > 3_000_000 { self.err("scheduler", "err:exchange does not quiesce".into()); break; }
            let to_server = if self.c2s.is_empty() { false } else if self.s2c.is_empty() { true } else { rng.chance(1, 2) };
            let avail = if to_server { self.c2s.len() } else { self.s2c.len() };
            let n = match mode {
                0 => avail,
                1 => 1,
                2 => *rng.pick(&[1usize, 2, 3, 11, 12, 13, 17, 128, 129]),
                _ => rng.range(1, 3000) as usize,
            }.min(avail);
            self.deliver(to_server, n);
        }
    }
}

pub fn run_one(rng: &mut Rng, t: &mut Trace, tier: &str) -> usize {
    let cs_tab = [1u32, 2, 128, 4096, 65536, 0x7FFFFFFF];
    let mode = *rng.pick(&[0u64, 0, 2, 2, 3, 3, 3, 1]);
    let mut ccfg = ClientSessionConfig::new();
    let mut scfg = ServerSessionConfig::new();
    ccfg.chunk_size = *rng.pick(&cs_tab);
    scfg.chunk_size = *rng.pick(&cs_tab);
    // byte-wise delivery only with big windows.  With BOTH windows tiny every acknowledgement is acknowledged in turn and the
    // exchange never falls silent (a property of the protocol, not of the library): the dialogue must still complete and every
    // item arrive; only the final wait for silence is skipped then (see exchange)
    let big = [1u32 << 20, 2_500_000, 0xFFFFFFFF];
    let any = [1u32, 100, 4096, 1 << 20, 0xFFFFFFFF];
    if mode != 1 && rng.chance(1, 8) {
        ccfg.window_ack_size = *rng.pick(&[1u32, 2, 16, 100]);
        scfg.window_ack_size = *rng.pick(&[1u32, 3, 16, 100]);
    } else if mode == 1 || rng.chance(1, 2) {
        ccfg.window_ack_size = *rng.pick(&big);
        scfg.window_ack_size = *rng.pick(&big);
    } else if rng.chance(1, 2) {
        ccfg.window_ack_size = *rng.pick(&any);
        scfg.window_ack_size = *rng.pick(&big);
    } else {
        ccfg.window_ack_size = *rng.pick(&big);
        scfg.window_ack_size = *rng.pick(&any);
    }
    scfg.send_on_bw_done_message_on_start = rng.chance(1, 2);
    let (sent, log, _) = exchange(rng, tier, ccfg, scfg, mode);
    for e in &log {
        t.emit(e);
    }
    sent
}

/// One complete dialogue between a real client session and a real server session with the given configurations.
/// Returns (items sent, the log, whether every call succeeded, everything sent was raised and the dialogue finished).
pub fn exchange(rng: &mut Rng, tier: &str, ccfg: ClientSessionConfig, scfg: ServerSessionConfig, mode: u64) -> (usize, Vec<Value>, bool) {
    let small_cs = ccfg.chunk_size < 128 || scfg.chunk_size < 128;
    let tiny_win = ccfg.window_ack_size < 1000 || scfg.window_ack_size < 1000;
    let publish = rng.chance(1, 2);
    let app = rng.pick(&["live", "app/x", "\u{e9}", "a"]).to_string();
    let key = rng.pick(&["key", "stream key", "\u{fc}k"]).to_string();
    rml_rtmp::verif::set_clock(Some(0));
    let (c, _) = ClientSession::new(ccfg.clone()).expect("client");
    let (s, srs) = ServerSession::new(scfg.clone()).expect("server");
    let mut wld = World { c, s, c2s: VecDeque::new(), s2c: VecDeque::new(), clock: *rng.pick(&[0u64, 1 << 24, (1u64 << 32) - 50]), log: vec![], failed: false,
                          publish, key: key.clone(), connected_client: false, accepted_client: false, play_sid: None, received: 0, finished: false, storm: ccfg.window_ack_size <= 16 && scfg.window_ack_size <= 16 };
    wld.log.push(json!({"ev":"Start","scenario": if publish {"publish"} else {"play"},"app":app.as_bytes().to_vec(),"key":key.as_bytes().to_vec(),
                        "cfg":{"ccs":ccfg.chunk_size,"scs":scfg.chunk_size,"cwin":w(ccfg.window_ack_size),"swin":w(scfg.window_ack_size),"mode":mode}}));
    let evs = wld.server_results(srs);
    wld.react_server(evs);
    let a = app.clone();
    wld.client_call("request_connection", &mut |c| c.request_connection(a.clone()).map(|r| vec![r]).map_err(|e| format!("{:?}", e)));
    wld.pump(rng, mode, &|w: &World| w.accepted_client && (w.publish || w.play_sid.is_some()));
    // items
    let nitems = rng.range(0, if tier == "thorough" { 12 } else { 7 }) as usize;
    let lens: Vec<usize> = if small_cs || mode == 1 || tiny_win { vec![0, 1, 2, 5, 31, 64, 130] } else { vec![0, 1, 127, 128, 129, 4095, 4096, 4097, 65535, 65536, 70000] };
    let mut sent = 0usize;
    if !wld.failed && wld.accepted_client {
        for _ in 0..nitems {
            let ts = *rng.pick(&crate::chunk::TS_TABLE);
            let item = match rng.below(5) {
                0 => Item::Meta(gen_meta(rng)),
                1 | 2 => { let n = *rng.pick(&lens); Item::Audio(ts, media_data(rng, n)) }
                _ => { let n = *rng.pick(&lens); Item::Video(ts, media_data(rng, n)) }
            };
            // now and then the application first tries something the session must REFUSE (metadata whose encoder name no AMF0 string
            // can hold; a call of the other role's workflow): a refusal sends nothing and must not disturb what is sent next
            if rng.chance(1, 5) {
                let mut bad = gen_meta(rng);
                bad.encoder = Some("e".repeat(70000));
                let refused = if publish { wld.c.publish_metadata(&bad).is_err() } else { wld.s.send_metadata(wld.play_sid.unwrap_or(1), &bad).is_err() };
                wld.log.push(json!({"ev":"Refused","what":"metadata with a 70000-byte encoder name","refused":refused}));
            }
            let mut ij = item_json(&item);
            ij["ev"] = json!("Send");
            // the sender may mark media as droppable; the transport here never drops anything, so every item must still arrive
            let droppable = rng.chance(1, 3);
            ij["droppable"] = json!(droppable);
            let ok = if publish {
                wld.tick();
                let r = match &item {
                    Item::Audio(ts, d) => wld.c.publish_audio_data(Bytes::from(d.clone()), RtmpTimestamp::new(*ts), droppable),
                    Item::Video(ts, d) => wld.c.publish_video_data(Bytes::from(d.clone()), RtmpTimestamp::new(*ts), droppable),
                    Item::Meta(m) => wld.c.publish_metadata(m),
                };
                match r {
                    Ok(ClientSessionResult::OutboundResponse(p)) => { wld.c2s.extend(p.bytes.iter()); ij["res"] = json!("ok"); true }
                    Ok(_) => { ij["res"] = json!("err:no packet"); false }
                    Err(e) => { ij["res"] = json!(format!("err:{:?}", e)); false }
                }
            } else {
                let sid = wld.play_sid.unwrap_or(1);
                wld.tick();
                let r = match &item {
                    Item::Audio(ts, d) => wld.s.send_audio_data(sid, Bytes::from(d.clone()), RtmpTimestamp::new(*ts), droppable),
                    Item::Video(ts, d) => wld.s.send_video_data(sid, Bytes::from(d.clone()), RtmpTimestamp::new(*ts), droppable),
                    Item::Meta(m) => wld.s.send_metadata(sid, m),
                };
                match r {
                    Ok(p) => { wld.s2c.extend(p.bytes.iter()); ij["res"] = json!("ok"); true }
                    Err(e) => { ij["res"] = json!(format!("err:{:?}", e)); false }
                }
            };
            wld.log.push(ij);
            if !ok { wld.failed = true; break; }
            sent += 1;
            // interleave sending with delivery now and then
            if rng.chance(1, 2) {
                let target = wld.received + rng.below(2) as usize;
                wld.pump(rng, mode, &|w: &World| w.received > target);
            }
        }
        wld.pump(rng, mode, &|w: &World| w.received >= sent);
        // stop once everything of the script has been raised at the receiver
        if !wld.failed {
            if publish {
                wld.client_call("stop_publishing", &mut |c| c.stop_publishing().map_err(|e| format!("{:?}", e)));
            } else {
                wld.client_call("stop_playback", &mut |c| c.stop_playback().map_err(|e| format!("{:?}", e)));
            }
            wld.pump(rng, mode, &|w: &World| w.finished);
            // wait for silence - unless both windows are so small that acknowledgements keep acknowledging each other
            let storm = ccfg.window_ack_size <= 16 && scfg.window_ack_size <= 16;
            if !storm {
                wld.pump(rng, mode, &|_w: &World| false);
            }
        }
    }
    let quiescent = wld.c2s.is_empty() && wld.s2c.is_empty();
    wld.log.push(json!({"ev":"End","quiescent":quiescent}));
    let good = !wld.failed && (quiescent || (ccfg.window_ack_size <= 16 && scfg.window_ack_size <= 16)) && wld.received >= sent && wld.finished;
    (sent, wld.log, good)
}

pub fn generate(tier: &str, seed: u64, shard: u64, nshards: u64, path: &str) -> Value {
    quiet_panics();
    let mut t = Trace::create(path);
    let mut rng = Rng::new(seed ^ shard.wrapping_mul(0x85EBCA6B) ^ 2002);
    let n = (if tier == "thorough" { 96000 } else { 480 }) / nshards as usize + 1;
    let mut items = 0;
    for _ in 0..n {
        items += run_one(&mut rng, &mut t, tier);
    }
    t.flush();
    json!({"kind":"interop","runs":n,"steps":items,"lines":t.line,"path":path})
}
