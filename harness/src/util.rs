//! Shared plumbing: deterministic PRNG, byte-string segment encoding, ndjson trace writer.
use serde_json::{json, Value};
use std::fs::File;
use std::io::{BufWriter, Write};

/// splitmix64 / xorshift: deterministic, seedable, no external crate.
#[derive(Clone)]
pub struct Rng(pub u64);
impl Rng {
    pub fn new(seed: u64) -> Rng {
        Rng(seed.wrapping_mul(0x9E3779B97F4A7C15).wrapping_add(0x1234567))
    }
    pub fn next(&mut self) -> u64 {
        self.0 = self.0.wrapping_add(0x9E3779B97F4A7C15);
        let mut z = self.0;
        z = (z ^ (z >> 30)).wrapping_mul(0xBF58476D1CE4E5B9);
        z = (z ^ (z >> 27)).wrapping_mul(0x94D049BB133111EB);
        z ^ (z >> 31)
    }
    pub fn below(&mut self, n: u64) -> u64 {
        if n == 0 { 0 } else { self.next() % n }
    }
    pub fn range(&mut self, lo: u64, hi: u64) -> u64 {
        lo + self.below(hi - lo + 1)
    }
    pub fn chance(&mut self, num: u64, den: u64) -> bool {
        self.below(den) < num
    }
    pub fn pick<'a, T>(&mut self, xs: &'a [T]) -> &'a T {
        &xs[self.below(xs.len() as u64) as usize]
    }
    pub fn u32(&mut self) -> u32 {
        self.next() as u32
    }
    pub fn bytes(&mut self, n: usize) -> Vec<u8> {
        (0..n).map(|_| self.next() as u8).collect()
    }
}

/// u32 as the limb pair the TLA+ specs use (TLC integers are 32-bit signed).
pub fn w(v: u32) -> Value {
    json!([v >> 16, v & 0xFFFF])
}

/// Lossless, structure-agnostic run-length pass: a byte string becomes a list of
/// segments {"l":[..]} (literal) / {"r":[v,n]} (n copies of v).  Never an empty segment.
pub fn segs(b: &[u8]) -> Value {
    const MINRUN: usize = 24;
    let mut out: Vec<Value> = Vec::new();
    let mut lit: Vec<u8> = Vec::new();
    let mut i = 0;
    while i < b.len() {
        let v = b[i];
        let mut j = i + 1;
        while j < b.len() && b[j] == v {
            j += 1;
        }
        if j - i >= MINRUN {
            if !lit.is_empty() {
                out.push(json!({ "l": lit }));
                lit = Vec::new();
            }
            out.push(json!({"r":[v, j - i]}));
        } else {
            lit.extend_from_slice(&b[i..j]);
        }
        i = j;
    }
    if !lit.is_empty() {
        out.push(json!({ "l": lit }));
    }
    Value::Array(out)
}

/// ndjson writer that knows the (1-based) number of the next line.
pub struct Trace {
    w: BufWriter<File>,
    pub line: usize,
    pub path: String,
}
impl Trace {
    pub fn create(path: &str) -> Trace {
        Trace { w: BufWriter::new(File::create(path).expect("create trace")), line: 0, path: path.to_string() }
    }
    pub fn emit(&mut self, v: &Value) {
        serde_json::to_writer(&mut self.w, v).unwrap();
        self.w.write_all(b"\n").unwrap();
        self.line += 1;
    }
    pub fn flush(&mut self) {
        self.w.flush().unwrap();
    }
}

pub fn panic_msg(e: Box<dyn std::any::Any + Send>) -> String {
    if let Some(s) = e.downcast_ref::<&str>() {
        s.to_string()
    } else if let Some(s) = e.downcast_ref::<String>() {
        s.clone()
    } else {
        "?".to_string()
    }
}

/// Keep panic messages out of stderr (they are recorded as data).
pub fn quiet_panics() {
    std::panic::set_hook(Box::new(|_| {}));
}

pub struct Args {
    pub tier: String,
    pub seed: u64,
    pub out: String,
    pub rest: Vec<String>,
}
pub fn parse_args(a: &[String]) -> Args {
    let mut r = Args { tier: "quick".into(), seed: 1, out: ".".into(), rest: vec![] };
    let mut i = 0;
    while i < a.len() {
        match a[i].as_str() {
            "--tier" => { r.tier = a[i + 1].clone(); i += 2; }
            "--seed" => { r.seed = a[i + 1].parse().unwrap_or(1); i += 2; }
            "--out" => { r.out = a[i + 1].clone(); i += 2; }
            _ => { r.rest.push(a[i].clone()); i += 1; }
        }
    }
    r
}
