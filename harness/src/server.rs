//! Driver for the real ServerSession (C09, C17; also reused by C15/C18).  Logs for Trace_Server.tla.
use crate::sess::*;
use crate::util::*;
use bytes::Bytes;
use rml_amf0::Amf0Value;
use rml_rtmp::messages::{PeerBandwidthLimitType, RtmpMessage, UserControlEventType};
use rml_rtmp::sessions::{PublishMode, ServerSession, ServerSessionConfig, ServerSessionEvent, ServerSessionResult};
use rml_rtmp::time::RtmpTimestamp;
use serde_json::{json, Value};
use std::collections::HashMap;
use std::panic::{catch_unwind, AssertUnwindSafe};

pub fn event_json(e: &ServerSessionEvent) -> Value {
    match e {
        ServerSessionEvent::ConnectionRequested { request_id, app_name } =>
            json!({"k":"event","o":"ConnectionRequested","req":request_id,"app":app_name.as_bytes().to_vec()}),
        ServerSessionEvent::PublishStreamRequested { request_id, app_name, stream_key, mode } =>
            json!({"k":"event","o":"PublishStreamRequested","req":request_id,"app":app_name.as_bytes().to_vec(),
                   "key":stream_key.as_bytes().to_vec(),
                   "mode": match mode { PublishMode::Live => "live", PublishMode::Record => "record", PublishMode::Append => "append" }}),
        ServerSessionEvent::PlayStreamRequested { request_id, app_name, stream_key, stream_id, start_at, duration, reset } => {
            // (the type of start_at is not exported by the crate: read it through its Debug form)
            let d = format!("{:?}", start_at);
            let start = if d == "LiveOrRecorded" || d == "LiveOnly" { json!({"k":d,"v":0}) }
                        else { json!({"k":"At","v":d.trim_start_matches("StartTimeInSeconds(").trim_end_matches(')').parse::<u64>().unwrap_or(u64::MAX)}) };
            let dur = match duration { Some(d) => json!([d]), None => json!([]) };
            json!({"k":"event","o":"PlayStreamRequested","req":request_id,"app":app_name.as_bytes().to_vec(),
                   "key":stream_key.as_bytes().to_vec(),"sid":stream_id,"start":start,"dur":dur,"reset":reset})
        }
        ServerSessionEvent::PublishStreamFinished { app_name, stream_key } =>
            json!({"k":"event","o":"PublishStreamFinished","app":app_name.as_bytes().to_vec(),"key":stream_key.as_bytes().to_vec()}),
        ServerSessionEvent::PlayStreamFinished { app_name, stream_key } =>
            json!({"k":"event","o":"PlayStreamFinished","app":app_name.as_bytes().to_vec(),"key":stream_key.as_bytes().to_vec()}),
        ServerSessionEvent::StreamMetadataChanged { app_name, stream_key, metadata } =>
            json!({"k":"event","o":"Metadata","app":app_name.as_bytes().to_vec(),"key":stream_key.as_bytes().to_vec(),"meta":meta_json(metadata)}),
        ServerSessionEvent::AudioDataReceived { app_name, stream_key, data, timestamp } =>
            json!({"k":"event","o":"Media","kind":"audio","app":app_name.as_bytes().to_vec(),"key":stream_key.as_bytes().to_vec(),
                   "ts":w(timestamp.value),"data":segs(&data[..])}),
        ServerSessionEvent::VideoDataReceived { app_name, stream_key, data, timestamp } =>
            json!({"k":"event","o":"Media","kind":"video","app":app_name.as_bytes().to_vec(),"key":stream_key.as_bytes().to_vec(),
                   "ts":w(timestamp.value),"data":segs(&data[..])}),
        ServerSessionEvent::AcknowledgementReceived { bytes_received } => json!({"k":"event","o":"AckRecv","v":w(*bytes_received)}),
        ServerSessionEvent::PingResponseReceived { timestamp } => json!({"k":"event","o":"PingRespRecv","ts":w(timestamp.value)}),
        ServerSessionEvent::ClientChunkSizeChanged { new_chunk_size } => json!({"k":"event","o":"ClientChunkSizeChanged","v":new_chunk_size}),
        ServerSessionEvent::UnhandleableAmf0Command { command_name, .. } => json!({"k":"event","o":"UnhandleableAmf0Command","name":command_name.as_bytes().to_vec()}),
        ServerSessionEvent::ReleaseStreamRequested { .. } => json!({"k":"event","o":"ReleaseStreamRequested"}),
    }
}

pub fn probe_json(s: &ServerSession) -> Value {
    let mut p: Value = serde_json::from_str(&s.verif_probe()).expect("probe json");
    let hexfix = |v: &mut Value, key: &str| {
        if let Some(x) = v.get(key).and_then(|x| x.as_str()).map(|x| x.to_string()) {
            v[key] = json!(unhex(&x));
        }
    };
    if let Some(a) = p["app"].as_array().cloned() {
        p["app"] = Value::Array(a.iter().map(|x| json!(unhex(x.as_str().unwrap_or("")))).collect());
    }
    for k in ["reqs", "streams"].iter() {
        if let Some(arr) = p[*k].as_array_mut() {
            for r in arr.iter_mut() {
                hexfix(r, "app");
                hexfix(r, "key");
            }
        }
    }
    p
}

pub struct Srv {
    pub s: ServerSession,
    pub peer: Peer,
    pub clock: u64,
    pub reqs: Vec<u32>,    // request ids seen in events (open or not)
    pub streams: Vec<u32>, // stream ids returned by createStream
    pub connected: bool,
    pub wire: Option<WireLog>,
    pub clock_mode: u64,
    /// Some(x): the next input is delivered in two calls (cut position derived from x); the event of the first
    /// call (which completes no message) is queued in `pending`
    pub frag: Option<u64>,
    pub pending: Vec<Value>,
    /// hold mode: inputs are collected (encoded, not delivered) and delivered by flush_held() in ONE input call
    pub hold: bool,
    pub held: Vec<(Value, Vec<u8>)>,
}

pub fn packets_of(rs: &[ServerSessionResult]) -> Vec<&rml_rtmp::chunk_io::Packet> {
    rs.iter().filter_map(|r| if let ServerSessionResult::OutboundResponse(p) = r { Some(p) } else { None }).collect()
}

/// Uptime schedule for C18: every threshold (2^24 ms extended timestamp, 2^32 ms wrap) is crossed
/// between two consecutive calls, with equal / +1 / huge / backward steps.
pub fn next_clock(rng: &mut Rng, clock: u64, mode: u64) -> u64 {
    if mode == 0 {
        return clock + 3;
    }
    match rng.below(12) {
        0 => clock,
        1 => clock + 1,
        2 => clock + 0xFFFFFE,
        3 => clock + 0xFFFFFF,
        4 => clock + 0x1000000,
        5 => clock.saturating_sub(*rng.pick(&[1u64, 5, 0x1000000])),
        6 => *rng.pick(&[0u64, (1 << 24) - 2, (1 << 24) - 1, 1 << 24, (1 << 24) + 1, (1u64 << 31) - 1, 1u64 << 31, (1u64 << 32) - 1, 1u64 << 32, (1u64 << 32) + 1, 3u64 << 32]),
        7 => clock + 0x7FFFFFFF,
        _ => clock + rng.range(1, 50),
    }
}

pub fn results_json(peer: &mut Peer, rs: &[ServerSessionResult]) -> Vec<Value> {
    let mut out = Vec::new();
    for r in rs {
        match r {
            ServerSessionResult::OutboundResponse(p) => out.extend(peer.decode(p)),
            ServerSessionResult::RaisedEvent(e) => out.push(event_json(e)),
            ServerSessionResult::UnhandleableMessageReceived(p) => out.push(json!({"k":"unhandled","ty":p.type_id})),
        }
    }
    out
}

impl Srv {
    pub fn new(cfg: ServerSessionConfig, clock: u64) -> (Srv, Value) {
        Srv::new_wired(cfg, clock, None)
    }

    pub fn new_wired(cfg: ServerSessionConfig, clock: u64, wire: Option<WireLog>) -> (Srv, Value) {
        rml_rtmp::verif::set_clock(Some(clock));
        let cfgj = json!({"cs":cfg.chunk_size,"win":w(cfg.window_ack_size),"bw":w(cfg.peer_bandwidth),"bwdone":cfg.send_on_bw_done_message_on_start});
        rml_rtmp::verif::tap_start(true);
        let (s, rs) = ServerSession::new(cfg).expect("server session");
        let mut peer = Peer::new();
        let results = results_json(&mut peer, &rs);
        let mut srv = Srv { s, peer, clock, reqs: vec![], streams: vec![], connected: false, wire, clock_mode: 0, frag: None, pending: vec![], hold: false, held: vec![] };
        srv.wire_record(&rs, "new");
        let ev = json!({"ev":"New","cfg":cfgj,"res":"ok","results":results,"probe":probe_json(&srv.s),"clk":w(clock as u32)});
        (srv, ev)
    }

    fn note(&mut self, results: &[Value]) {
        for r in results {
            if r["k"] == "event" {
                if let Some(id) = r.get("req").and_then(|x| x.as_u64()) {
                    self.reqs.push(id as u32);
                }
            }
            if r["k"] == "out" && r["msg"]["k"] == "Command" {
                let name = r["msg"]["name"].clone();
                if name == segs(b"_result") && r["msid"] == 0 {
                    if let Some(n) = r["arg0num"].get(0).and_then(|x| x.as_u64()) {
                        self.streams.push(n as u32);
                    }
                }
            }
        }
    }

    pub fn tick(&mut self, rng: &mut Rng) {
        self.clock = next_clock(rng, self.clock, self.clock_mode);
    }

    fn wire_record(&mut self, rs: &[ServerSessionResult], site: &str) {
        let taps = rml_rtmp::verif::tap_drain();
        if let Some(wl) = self.wire.as_mut() {
            wl.record(&packets_of(rs), taps, site);
        }
    }

    /// deliver everything held in one input call; the event lists the items (i.m = "batch")
    pub fn flush_held(&mut self) -> Option<Value> {
        if self.held.is_empty() { return None; }
        let held: Vec<(Value, Vec<u8>)> = self.held.drain(..).collect();
        if held.len() == 1 {
            let (d, b) = held.into_iter().next().unwrap();
            return Some(self.input_whole(d, &b));
        }
        let mut all: Vec<u8> = Vec::new();
        let mut items: Vec<Value> = Vec::new();
        for (d, b) in held { all.extend_from_slice(&b); items.push(d); }
        Some(self.input_whole(json!({"m":"batch","items":items}), &all))
    }

    pub fn input(&mut self, desc: Value, bytes: &[u8]) -> Value {
        if self.hold {
            let m = desc["m"].as_str().unwrap_or("").to_string();
            let malformed = (m == "setDataFrame" && desc["shape"] != "ok") || ((m == "closeStream" || m == "deleteStream") && desc["arg"] != "num")
                || (m == "onStatus" && desc["code"] == "malformed") || (m == "onMetaData" && desc["shape"] != "ok");
            if ["connect", "createStream", "publish", "play", "winack", "frag"].contains(&m.as_str()) || malformed {
                // needs ids the session hands out, announces a window or is malformed: delivered alone, after what is held
                if let Some(e) = self.flush_held() { self.pending.push(e); }
                return self.input_whole(desc, bytes);
            }
            self.held.push((desc, bytes.to_vec()));
            return Value::Null;
        }
        if let Some(x) = self.frag.take() {
            if bytes.len() >= 2 {
                let cut = 1 + (x % (bytes.len() as u64 - 1)) as usize;
                let first = self.input_whole(json!({"m":"frag"}), &bytes[..cut]);
                let ok = first["res"] == "ok";
                self.pending.push(first);
                if !ok {
                    return self.input_whole(json!({"m":"frag"}), &[]);
                }
                return self.input_whole(desc, &bytes[cut..]);
            }
        }
        self.input_whole(desc, bytes)
    }

    pub fn input_whole(&mut self, desc: Value, bytes: &[u8]) -> Value {
        if self.clock_mode == 0 { self.clock += 3; }
        rml_rtmp::verif::set_clock(Some(self.clock));
        let _ = rml_rtmp::verif::tap_drain();
        let r = catch_unwind(AssertUnwindSafe(|| self.s.handle_input(bytes)));
        match &r {
            Ok(Ok(rs)) => self.wire_record(rs, "handle_input"),
            _ => self.wire_record(&[], "handle_input"),
        }
        let (res, results) = match r {
            Ok(Ok(rs)) => ("ok".to_string(), results_json(&mut self.peer, &rs)),
            Ok(Err(e)) => (format!("err:{:?}", e), vec![]),
            Err(p) => (format!("panic:{}", panic_msg(p)), vec![]),
        };
        self.note(&results);
        json!({"ev":"In","i":desc,"n":bytes.len(),"res":res,"results":results,"probe":probe_json(&self.s),"clk":w(self.clock as u32)})
    }

    pub fn call(&mut self, desc: Value, f: &mut dyn FnMut(&mut ServerSession) -> Result<Vec<ServerSessionResult>, String>) -> Value {
        if self.clock_mode == 0 { self.clock += 3; }
        rml_rtmp::verif::set_clock(Some(self.clock));
        let _ = rml_rtmp::verif::tap_drain();
        let r = {
            let s = &mut self.s;
            catch_unwind(AssertUnwindSafe(|| f(s)))
        };
        let site = desc["m"].as_str().unwrap_or("call").to_string();
        match &r {
            Ok(Ok(rs)) => self.wire_record(rs, &site),
            _ => self.wire_record(&[], &site),
        }
        let (res, results) = match r {
            Ok(Ok(rs)) => ("ok".to_string(), results_json(&mut self.peer, &rs)),
            Ok(Err(e)) => (format!("err:{}", e), vec![]),
            Err(p) => (format!("panic:{}", panic_msg(p)), vec![]),
        };
        self.note(&results);
        if desc["m"] == "accept" && res == "ok" {
            self.connected = true;
        }
        json!({"ev":"Call","i":desc,"res":res,"results":results,"probe":probe_json(&self.s),"clk":w(self.clock as u32)})
    }
}

const APPS: [&str; 5] = ["live", "app/", "a", "\u{e9}/", "x/y"];
const KEYS: [&str; 8] = ["key1", "stream key", "k", "\u{fc}", "", "abcde", "sixsix", "a-long-stream-key-of-thirty-two-"];
const SIDS: [u32; 7] = [0, 1, 2, 3, 5, 1000, 0x7FFFFFFF];
const TXNS: [f64; 5] = [0.0, 1.0, 2.0, 5.0, 4294967296.5];

fn cmd(name: &str, txn: f64, obj: Amf0Value, args: Vec<Amf0Value>) -> RtmpMessage {
    RtmpMessage::Amf0Command { command_name: name.to_string(), transaction_id: txn, command_object: obj, additional_arguments: args }
}
fn s(x: &str) -> Amf0Value {
    Amf0Value::Utf8String(x.to_string())
}

fn pick_sid(rng: &mut Rng, srv: &Srv) -> u32 {
    if !srv.streams.is_empty() && rng.chance(3, 4) { *rng.pick(&srv.streams) } else { *rng.pick(&SIDS) }
}
fn pick_req(rng: &mut Rng, srv: &Srv) -> u32 {
    if !srv.reqs.is_empty() && rng.chance(4, 5) { *rng.pick(&srv.reqs) } else { rng.below(12) as u32 }
}

/// One random step of a history; `bias` steers towards making progress (connect, create, publish).
pub fn random_step(rng: &mut Rng, srv: &mut Srv, padlens: &[usize]) -> Value {
    let ts = *rng.pick(&[0u32, 1, 40, 0xFFFFFF, 0x1000000, 0x7FFFFFFF, 0x80000000, 0xFFFFFFFF]);
    let choice = rng.below(100);
    match choice {
        0..=7 => {
            let txn = *rng.pick(&TXNS);
            let kind = *rng.pick(&["ok", "ok", "ok", "ok", "missing", "notstring", "notobject"]);
            let app = rng.pick(&APPS).to_string();
            let obj = match kind {
                "ok" => {
                    let mut p = HashMap::new();
                    p.insert("app".to_string(), s(&app));
                    p.insert("flashVer".to_string(), s("FMLE/3.0"));
                    if rng.chance(1, 2) {
                        p.insert("objectEncoding".to_string(), if rng.chance(1, 4) { s("3") } else { Amf0Value::Number(*rng.pick(&[0.0, 3.0])) });
                    }
                    Amf0Value::Object(p)
                }
                "missing" => Amf0Value::Object(HashMap::new()),
                "notstring" => {
                    let mut p = HashMap::new();
                    p.insert("app".to_string(), Amf0Value::Number(1.0));
                    Amf0Value::Object(p)
                }
                _ => Amf0Value::Null,
            };
            let b = srv.peer.encode(cmd("connect", txn, obj, vec![]), ts, 0);
            srv.input(json!({"m":"connect","txn":txn_json(txn),"appkind":kind,"app":app.as_bytes().to_vec()}), &b)
        }
        8..=17 => {
            let txn = *rng.pick(&TXNS);
            let b = srv.peer.encode(cmd("createStream", txn, Amf0Value::Null, vec![]), ts, 0);
            srv.input(json!({"m":"createStream","txn":txn_json(txn)}), &b)
        }
        18..=29 => {
            let txn = *rng.pick(&TXNS);
            let msid = pick_sid(rng, srv);
            let key = rng.pick(&KEYS).to_string();
            let (args, class, mode) = match rng.below(10) {
                0 => (vec![], "short", "live"),
                1 => (vec![s(&key)], "short", "live"),
                2 => (vec![Amf0Value::Number(1.0), s("live")], "keynotstring", "live"),
                3 => (vec![s(&key), s("bogus")], "badmode", "live"),
                4 => (vec![s(&key), Amf0Value::Null], "modenotstring", "live"),
                5 => (vec![s(&key), s("RECORD")], "ok", "record"),
                6 => (vec![s(&key), s("Append"), Amf0Value::Null], "ok", "append"),
                _ => (vec![s(&key), s("live")], "ok", "live"),
            };
            let b = srv.peer.encode(cmd("publish", txn, Amf0Value::Null, args), ts, msid);
            srv.input(json!({"m":"publish","msid":msid,"txn":txn_json(txn),"args":class,"key":key.as_bytes().to_vec(),"mode":mode}), &b)
        }
        30..=37 => {
            let txn = *rng.pick(&TXNS);
            let msid = pick_sid(rng, srv);
            let key = rng.pick(&KEYS).to_string();
            let (args, class) = match rng.below(8) {
                0 => (vec![], "none"),
                1 => (vec![Amf0Value::Boolean(true)], "keynotstring"),
                2 => (vec![s(&key), Amf0Value::Number(*rng.pick(&[-2.0, -1.0, 0.0]))], "ok"),
                3 => (vec![s(&key), Amf0Value::Number(-5.0), Amf0Value::Number(-1.0), Amf0Value::Null, s("extra")], "ok"),
                4 => (vec![s(&key), Amf0Value::Number(*rng.pick(&[10.0, 0.0, 2147483647.0])), Amf0Value::Number(*rng.pick(&[30.0, 0.0, -1.0])), Amf0Value::Boolean(rng.chance(1, 2))], "ok"),
                5 => (vec![s(&key), s("x"), s("y"), s("z")], "ok"),
                _ => (vec![s(&key)], "ok"),
            };
            // the optional arguments after the stream key, as the specification reads them (start, duration, reset)
            let parg = |i: usize| -> Value {
                match args.get(i) {
                    None => json!([]),
                    Some(Amf0Value::Number(x)) => json!([{"k":"num","v":*x as i64}]),
                    Some(Amf0Value::Boolean(b)) => json!([{"k":"bool","v":*b}]),
                    Some(_) => json!([{"k":"other","v":0}]),
                }
            };
            let pargs = json!({"start":parg(1),"dur":parg(2),"reset":parg(3)});
            let b = srv.peer.encode(cmd("play", txn, Amf0Value::Null, args), ts, msid);
            srv.input(json!({"m":"play","msid":msid,"txn":txn_json(txn),"args":class,"key":key.as_bytes().to_vec(),"pargs":pargs}), &b)
        }
        38..=45 => {
            let name = if rng.chance(1, 2) { "closeStream" } else { "deleteStream" };
            let sid = pick_sid(rng, srv);
            let (args, class) = match rng.below(6) {
                0 => (vec![], "none"),
                1 => (vec![s("1")], "notnum"),
                _ => (vec![Amf0Value::Number(sid as f64)], "num"),
            };
            let b = srv.peer.encode(cmd(name, 0.0, Amf0Value::Null, args), ts, *rng.pick(&[0u32, sid]));
            srv.input(json!({"m":name,"arg":class,"sid":sid}), &b)
        }
        46..=57 => {
            let msid = pick_sid(rng, srv);
            let len = *rng.pick(padlens);
            let d = media_data(rng, len);
            let (m, name) = if rng.chance(1, 2) { (RtmpMessage::AudioData { data: Bytes::from(d.clone()) }, "audio") } else { (RtmpMessage::VideoData { data: Bytes::from(d.clone()) }, "video") };
            let b = srv.peer.encode(m, ts, msid);
            srv.input(json!({"m":name,"msid":msid,"ts":w(ts),"data":segs(&d)}), &b)
        }
        58..=63 => {
            let msid = pick_sid(rng, srv);
            let meta = gen_meta(rng);
            let mut meta = meta;
            let mut mobj = meta_object(&meta);
            if rng.chance(1, 3) {
                if let Amf0Value::Object(ref mut p) = mobj {
                    p.insert("unknownKey".to_string(), Amf0Value::Number(1.0));
                    p.insert("duration".to_string(), s("x"));
                    // an ill-typed known key is ignored by the mapping: the event must not carry a value for it
                    match rng.below(3) {
                        0 => { p.insert("width".to_string(), s("wide")); meta.video_width = None; }
                        1 => { p.insert("stereo".to_string(), Amf0Value::Number(1.0)); meta.audio_is_stereo = None; }
                        _ => { p.insert("encoder".to_string(), Amf0Value::Null); meta.encoder = None; }
                    }
                }
            }
            let (vals, shape) = match rng.below(8) {
                0 => (vec![s("@setDataFrame"), s("somethingElse"), mobj.clone()], "notmeta"),
                1 => (vec![s("@setDataFrame"), s("onMetaData"), Amf0Value::Number(1.0)], "noobj"),
                2 => (vec![s("onMetaData"), mobj.clone()], "other"),
                _ => (vec![s("@setDataFrame"), s("onMetaData"), mobj.clone()], "ok"),
            };
            let b = srv.peer.encode(RtmpMessage::Amf0Data { values: vals }, ts, msid);
            srv.input(json!({"m":"setDataFrame","msid":msid,"shape":shape,"meta":meta_json(&meta)}), &b)
        }
        64..=67 => {
            let req = rng.chance(2, 3);
            let m = RtmpMessage::UserControl { event_type: if req { UserControlEventType::PingRequest } else { UserControlEventType::PingResponse },
                                               stream_id: None, buffer_length: None, timestamp: Some(RtmpTimestamp::new(ts)) };
            let b = srv.peer.encode(m, 0, 0);
            srv.input(json!({"m": if req {"pingreq"} else {"pingresp"},"ts":w(ts)}), &b)
        }
        68..=70 => {
            let v = rng.u32();
            let b = srv.peer.encode(RtmpMessage::Acknowledgement { sequence_number: v }, ts, 0);
            srv.input(json!({"m":"ack","v":w(v)}), &b)
        }
        71..=73 => {
            let v = *rng.pick(&[1u32, 2, 3, 16, 17, 100, 4096, 1 << 20, 0x80000000, 0xFFFFFFFF]);
            let b = srv.peer.encode(RtmpMessage::WindowAcknowledgement { size: v }, ts, 0);
            srv.input(json!({"m":"winack","v":w(v)}), &b)
        }
        74..=75 => {
            let v = *rng.pick(&[1u32, 2, 128, 4096, 65536, 0x7FFFFFFF]);
            let b = srv.peer.encode(RtmpMessage::SetChunkSize { size: v }, ts, 0);
            srv.input(json!({"m":"setcs","v":v}), &b)
        }
        76..=78 => {
            if rng.chance(1, 5) {
                // a message type the session does not interpret: handed back to the application as it is
                let ty = *rng.pick(&[7u8, 16, 19, 22, 99, 255]);
                let b = srv.peer.encode(RtmpMessage::Unknown { type_id: ty, data: Bytes::from(vec![1u8, 2, 3]) }, ts, 0);
                return srv.input(json!({"m":"unknowntype","ty":ty}), &b);
            }
            let (m, name) = match rng.below(4) {
                0 => (RtmpMessage::SetPeerBandwidth { size: if rng.chance(1, 4) { rng.u32() } else { *rng.pick(&[1u32, 2, 16, 100, 4096, 1 << 20]) },
                                                      limit_type: rng.pick(&[PeerBandwidthLimitType::Hard, PeerBandwidthLimitType::Soft, PeerBandwidthLimitType::Dynamic]).clone() }, "setpeerbw"),
                1 => (RtmpMessage::Abort { stream_id: rng.u32() }, "abort"),
                2 => (cmd(*rng.pick(&["releaseStream", "FCPublish", "getStreamLength", "_checkbw"]), 3.0, Amf0Value::Null, vec![s("k")]), "unknowncmd"),
                _ => (RtmpMessage::UserControl { event_type: UserControlEventType::SetBufferLength, stream_id: Some(1), buffer_length: Some(3000), timestamp: None }, "userctl"),
            };
            let b = srv.peer.encode(m, ts, 0);
            srv.input(json!({"m":name}), &b)
        }
        79..=90 => {
            let id = pick_req(rng, srv);
            if rng.chance(3, 4) {
                srv.call(json!({"m":"accept","id":id}), &mut |s| s.accept_request(id).map_err(|e| format!("{:?}", e)))
            } else {
                srv.call(json!({"m":"reject","id":id}), &mut |s| s.reject_request(id, "NetStream.Failed", "no").map_err(|e| format!("{:?}", e)))
            }
        }
        91..=92 => {
            let sid = pick_sid(rng, srv);
            srv.call(json!({"m":"finish_playing","sid":sid}), &mut |s| s.finish_playing(sid).map(|p| vec![ServerSessionResult::OutboundResponse(p)]).map_err(|e| format!("{:?}", e)))
        }
        93..=97 => {
            let sid = pick_sid(rng, srv);
            let len = *rng.pick(padlens);
            let d = media_data(rng, len);
            let drop = rng.chance(1, 2);
            let audio = rng.chance(1, 2);
            let dd = Bytes::from(d.clone());
            srv.call(json!({"m": if audio {"send_audio"} else {"send_video"},"sid":sid,"ts":w(ts),"drop":drop,"data":segs(&d)}), &mut |s| {
                let r = if audio { s.send_audio_data(sid, dd.clone(), RtmpTimestamp::new(ts), drop) } else { s.send_video_data(sid, dd.clone(), RtmpTimestamp::new(ts), drop) };
                r.map(|p| vec![ServerSessionResult::OutboundResponse(p)]).map_err(|e| format!("{:?}", e))
            })
        }
        98 => {
            let sid = pick_sid(rng, srv);
            let meta = gen_meta(rng);
            srv.call(json!({"m":"send_metadata","sid":sid,"meta":meta_json(&meta)}), &mut |s| s.send_metadata(sid, &meta).map(|p| vec![ServerSessionResult::OutboundResponse(p)]).map_err(|e| format!("{:?}", e)))
        }
        _ => srv.call(json!({"m":"send_ping"}), &mut |s| s.send_ping_request().map(|(p, _)| vec![ServerSessionResult::OutboundResponse(p)]).map_err(|e| format!("{:?}", e))),
    }
}

/// The happy path up to an accepted publish on a created stream (so that deep states are reached often).
pub fn warmup(rng: &mut Rng, srv: &mut Srv, t: &mut Trace, depth: u64) {
    let app = rng.pick(&APPS).to_string();
    let mut p = HashMap::new();
    p.insert("app".to_string(), s(&app));
    let b = srv.peer.encode(cmd("connect", 1.0, Amf0Value::Object(p), vec![]), 0, 0);
    t.emit(&srv.input(json!({"m":"connect","txn":txn_json(1.0),"appkind":"ok","app":app.as_bytes().to_vec()}), &b));
    if depth < 1 { return; }
    if let Some(&id) = srv.reqs.last() {
        t.emit(&srv.call(json!({"m":"accept","id":id}), &mut |s| s.accept_request(id).map_err(|e| format!("{:?}", e))));
    }
    if depth < 2 { return; }
    // one warm-up in eight creates MANY streams and leaves MANY requests unanswered first (nothing caps either number):
    // the stream used afterwards is the last one created
    if rng.chance(1, 8) {
        let k = *rng.pick(&[17usize, 33, 65, 129, 257]);
        for i in 0..k {
            let b = srv.peer.encode(cmd("createStream", 2.0, Amf0Value::Null, vec![]), 0, 0);
            t.emit(&srv.input(json!({"m":"createStream","txn":txn_json(2.0)}), &b));
            if i % 4 == 0 {
                if let Some(&sid) = srv.streams.last() {
                    let key = rng.pick(&KEYS).to_string();
                    let b = srv.peer.encode(cmd("play", 0.0, Amf0Value::Null, vec![s(&key)]), 0, sid);
                    t.emit(&srv.input(json!({"m":"play","msid":sid,"txn":txn_json(0.0),"args":"ok","key":key.as_bytes().to_vec()}), &b));
                    // every other one of these requests is accepted and gets media and metadata (a session may serve any number
                    // of streams over its lifetime)
                    if i % 8 == 0 {
                        if let Some(&id) = srv.reqs.last() {
                            t.emit(&srv.call(json!({"m":"accept","id":id}), &mut |s| s.accept_request(id).map_err(|e| format!("{:?}", e))));
                            let d = vec![7u8, (i % 251) as u8, 9];
                            let dd = Bytes::from(d.clone());
                            t.emit(&srv.call(json!({"m":"send_video","sid":sid,"ts":w(40),"drop":false,"data":segs(&d)}), &mut |s| s.send_video_data(sid, dd.clone(), RtmpTimestamp::new(40), false).map(|p| vec![ServerSessionResult::OutboundResponse(p)]).map_err(|e| format!("{:?}", e))));
                            let dd = Bytes::from(d.clone());
                            t.emit(&srv.call(json!({"m":"send_audio","sid":sid,"ts":w(41),"drop":false,"data":segs(&d)}), &mut |s| s.send_audio_data(sid, dd.clone(), RtmpTimestamp::new(41), false).map(|p| vec![ServerSessionResult::OutboundResponse(p)]).map_err(|e| format!("{:?}", e))));
                        }
                    }
                }
            }
        }
    }
    let b = srv.peer.encode(cmd("createStream", 2.0, Amf0Value::Null, vec![]), 0, 0);
    t.emit(&srv.input(json!({"m":"createStream","txn":txn_json(2.0)}), &b));
    if depth < 3 { return; }
    if let Some(&sid) = srv.streams.last() {
        let key = rng.pick(&KEYS).to_string();
        let publish = rng.chance(2, 3);
        let (name, args) = if publish { ("publish", vec![s(&key), s("live")]) } else { ("play", vec![s(&key)]) };
        let b = srv.peer.encode(cmd(name, 0.0, Amf0Value::Null, args), 0, sid);
        let mut d = json!({"m":name,"msid":sid,"txn":txn_json(0.0),"args":"ok","key":key.as_bytes().to_vec()});
        if publish { d["mode"] = json!("live"); }
        t.emit(&srv.input(d, &b));
        if depth < 4 { return; }
        if let Some(&id) = srv.reqs.last() {
            t.emit(&srv.call(json!({"m":"accept","id":id}), &mut |s| s.accept_request(id).map_err(|e| format!("{:?}", e))));
        }
    }
}

pub fn gen_config(rng: &mut Rng) -> ServerSessionConfig {
    let mut c = ServerSessionConfig::new();
    c.chunk_size = *rng.pick(&[1u32, 2, 128, 4096, 4096, 65536, 0x7FFFFFFF]);
    c.window_ack_size = *rng.pick(&[1u32, 100, 1 << 20, 0xFFFFFFFF, 2_500_000]);
    c.peer_bandwidth = *rng.pick(&[0u32, 1, 2_500_000, 0xFFFFFFFF]);
    c.send_on_bw_done_message_on_start = rng.chance(1, 2);
    c
}

pub fn generate(kind: &str, tier: &str, seed: u64, shard: u64, nshards: u64, path: &str) -> Value {
    quiet_panics();
    let mut t = Trace::create(path);
    let mut rng = Rng::new(seed ^ shard.wrapping_mul(0x2545F491) ^ 909);
    let nruns = (if tier == "thorough" { 2400 } else { 400 }) / nshards as usize + 1;
    let mut steps = 0usize;
    let wired = kind == "wire";
    let mut wt = if wired { Some(Trace::create(&format!("{}.wire", path))) } else { None };
    let mut wc0 = 0usize;
    let mut packets = 0usize;
    let mut lost = 0usize;
    for r in 0..nruns {
        let cfg = gen_config(&mut rng);
        let small_cs = cfg.chunk_size < 128;
        let wl = wt.as_ref().map(|t| WireLog { run: crate::chunk::Run::new(t, "all", true), lost: 0, packets: 0 });
        let start = if wired { *rng.pick(&[0u64, (1 << 24) - 3, (1u64 << 32) - 4, 1000]) } else { *rng.pick(&[0u64, 5, 1000]) };
        let (mut srv, ev) = Srv::new_wired(cfg, start, wl);
        srv.clock_mode = if wired { 1 } else { 0 };
        t.emit(&ev);
        let padlens: Vec<usize> = if kind == "ack" {
            vec![0, 1, 2, 3, 5, 16, 17, 100, 4095, 4096, 4097]
        } else if wired && small_cs {
            vec![0, 1, 2, 5, 31, 64]
        } else {
            vec![0, 1, 5, 127, 128, 129, 4096, 5000]
        };
        warmup(&mut rng, &mut srv, &mut t, (r % 6) as u64);
        if kind == "ack" {
            // learn a window early so that the accounting is exercised for the rest of the run
            let v = *rng.pick(&[1u32, 2, 3, 16, 17, 18, 100, 4096, 4097, 1 << 20, 0x80000000, 0xFFFFFFFF]);
            let b = srv.peer.encode(RtmpMessage::WindowAcknowledgement { size: v }, 0, 0);
            t.emit(&srv.input(json!({"m":"winack","v":w(v)}), &b));
        }
        let n = rng.range(5, 40);
        let mut prev_probe = probe_json(&srv.s);
        for _ in 0..n {
            srv.tick(&mut rng);
            // one step in five is a BURST: the next two to four inbound messages are delivered by ONE input call (application
            // calls made meanwhile happen before it); otherwise every fourth input arrives in two calls, the first of which
            // completes no message
            let mut evs: Vec<Value> = Vec::new();
            if rng.chance(1, 5) {
                srv.hold = true;
                srv.frag = None;
                for _ in 0..rng.range(2, 4) {
                    let e = random_step(&mut rng, &mut srv, &padlens);
                    evs.extend(srv.pending.drain(..));
                    if !e.is_null() { evs.push(e); }
                }
                srv.hold = false;
                if let Some(e) = srv.flush_held() { evs.push(e); }
            } else {
                srv.frag = if rng.chance(1, 4) { Some(rng.next()) } else { None };
                let e = random_step(&mut rng, &mut srv, &padlens);
                srv.frag = None;
                evs.extend(srv.pending.drain(..));
                evs.push(e);
            }
            // a panic poisons the session; an Err from handle_input may have discarded packets that were already serialized
            // (finding K1, judged under C18), after which the peer decoder of this harness can no longer follow; a failing
            // fragment or burst leaves bytes behind in the session's deserializer: end the run in all these cases
            let mut dead = false;
            for e in evs {
                let res = e["res"].as_str().unwrap_or("").to_string();
                let is_in = e["ev"] == "In";
                let special = is_in && (e["i"]["m"] == "frag" || e["i"]["m"] == "batch");
                dead |= res.starts_with("panic") || (is_in && res.starts_with("err") && (special || lost_ack(&prev_probe, &e)));
                prev_probe = e["probe"].clone();
                t.emit(&e);
                steps += 1;
                if dead { break; }
            }
            if dead {
                break;
            }
        }
        if let (Some(wl), Some(w)) = (srv.wire.take(), wt.as_mut()) {
            packets += wl.packets;
            lost += wl.lost;
            wl.run.finish(w, &mut wc0, false);
        }
    }
    t.flush();
    if let Some(w) = wt.as_mut() {
        w.flush();
    }
    json!({"kind":kind,"runs":nruns,"steps":steps,"lines":t.line,"path":path,"packets":packets,"lost":lost})
}
