//! Driver for the real ClientSession (C10, C17).  Logs for Trace_Client.tla.
use crate::sess::*;
use crate::util::*;
use bytes::Bytes;
use rml_amf0::Amf0Value;
use rml_rtmp::messages::{RtmpMessage, UserControlEventType};
use rml_rtmp::sessions::{ClientSession, ClientSessionConfig, ClientSessionEvent, ClientSessionResult, PublishRequestType};
use rml_rtmp::time::RtmpTimestamp;
use serde_json::{json, Value};
use std::collections::HashMap;
use std::panic::{catch_unwind, AssertUnwindSafe};

pub fn event_json(e: &ClientSessionEvent) -> Value {
    match e {
        ClientSessionEvent::ConnectionRequestAccepted => json!({"k":"event","o":"ConnAccepted"}),
        ClientSessionEvent::ConnectionRequestRejected { description } => json!({"k":"event","o":"ConnRejected","desc":description.as_bytes().to_vec()}),
        ClientSessionEvent::PlaybackRequestAccepted => json!({"k":"event","o":"PlaybackAccepted"}),
        ClientSessionEvent::PublishRequestAccepted => json!({"k":"event","o":"PublishAccepted"}),
        ClientSessionEvent::StreamMetadataReceived { metadata } => json!({"k":"event","o":"Metadata","meta":meta_json(metadata)}),
        ClientSessionEvent::VideoDataReceived { timestamp, data } => json!({"k":"event","o":"Media","kind":"video","ts":w(timestamp.value),"data":segs(&data[..])}),
        ClientSessionEvent::AudioDataReceived { timestamp, data } => json!({"k":"event","o":"Media","kind":"audio","ts":w(timestamp.value),"data":segs(&data[..])}),
        ClientSessionEvent::UnhandleableAmf0Command { .. } => json!({"k":"event","o":"UnhandleableAmf0Command"}),
        ClientSessionEvent::UnknownTransactionResultReceived { .. } => json!({"k":"event","o":"UnknownTxn"}),
        ClientSessionEvent::UnhandleableOnStatusCode { code } => json!({"k":"event","o":"UnhandleableOnStatusCode","code":code.as_bytes().to_vec()}),
        ClientSessionEvent::AcknowledgementReceived { bytes_received } => json!({"k":"event","o":"AckRecv","v":w(*bytes_received)}),
        ClientSessionEvent::PingResponseReceived { timestamp } => json!({"k":"event","o":"PingRespRecv","ts":w(timestamp.value)}),
    }
}

pub fn probe_json(s: &ClientSession) -> Value {
    let mut p: Value = serde_json::from_str(&s.verif_probe()).expect("probe json");
    if let Some(a) = p["app"].as_array().cloned() {
        p["app"] = Value::Array(a.iter().map(|x| json!(unhex(x.as_str().unwrap_or("")))).collect());
    }
    if let Some(arr) = p["txns"].as_array_mut() {
        for r in arr.iter_mut() {
            if let Some(x) = r.get("key").and_then(|x| x.as_str()).map(|x| x.to_string()) {
                r["key"] = json!(unhex(&x));
            }
        }
    }
    p
}

pub fn results_json(peer: &mut Peer, rs: &[ClientSessionResult]) -> Vec<Value> {
    let mut out = Vec::new();
    for r in rs {
        match r {
            ClientSessionResult::OutboundResponse(p) => out.extend(peer.decode(p)),
            ClientSessionResult::RaisedEvent(e) => out.push(event_json(e)),
            ClientSessionResult::UnhandleableMessageReceived(p) => out.push(json!({"k":"unhandled","ty":p.type_id})),
        }
    }
    out
}

pub struct Cli {
    pub s: ClientSession,
    pub peer: Peer,
    pub clock: u64,
    pub txns: Vec<u32>,
    pub sids: Vec<u32>,
    pub wire: Option<WireLog>,
    pub clock_mode: u64,
    /// Some(x): the next input is delivered in two calls (cut position derived from x); the event of the first
    /// call (which completes no message) is queued in `pending`
    pub frag: Option<u64>,
    pub pending: Vec<Value>,
    /// hold mode: inputs are collected (encoded, not delivered) and delivered by flush_held() in ONE input call
    pub hold: bool,
    pub held: Vec<(Value, Vec<u8>)>,
}

pub fn packets_of(rs: &[ClientSessionResult]) -> Vec<&rml_rtmp::chunk_io::Packet> {
    rs.iter().filter_map(|r| if let ClientSessionResult::OutboundResponse(p) = r { Some(p) } else { None }).collect()
}

impl Cli {
    pub fn new(cfg: ClientSessionConfig, clock: u64) -> (Cli, Value) {
        Cli::new_wired(cfg, clock, None)
    }

    pub fn tick(&mut self, rng: &mut Rng) {
        self.clock = crate::server::next_clock(rng, self.clock, self.clock_mode);
    }

    fn wire_record(&mut self, rs: &[ClientSessionResult], site: &str) {
        let taps = rml_rtmp::verif::tap_drain();
        if let Some(wl) = self.wire.as_mut() {
            wl.record(&packets_of(rs), taps, site);
        }
    }

    pub fn new_wired(cfg: ClientSessionConfig, clock: u64, wire: Option<WireLog>) -> (Cli, Value) {
        rml_rtmp::verif::set_clock(Some(clock));
        rml_rtmp::verif::tap_start(true);
        let cfgj = json!({"cs":cfg.chunk_size,"win":w(cfg.window_ack_size),"buf":w(cfg.playback_buffer_length_ms)});
        let (s, rs) = ClientSession::new(cfg).expect("client session");
        let mut peer = Peer::new();
        let results = results_json(&mut peer, &rs);
        let mut c = Cli { s, peer, clock, txns: vec![], sids: vec![], wire, clock_mode: 0, frag: None, pending: vec![], hold: false, held: vec![] };
        c.wire_record(&rs, "new");
        let ev = json!({"ev":"New","cfg":cfgj,"res":"ok","results":results,"probe":probe_json(&c.s),"clk":w(clock as u32)});
        (c, ev)
    }
    fn note(&mut self, results: &[Value]) {
        for r in results {
            if r["k"] == "out" && r["msg"]["k"] == "Command" {
                if let Some(n) = r["txnnum"].get(0).and_then(|x| x.as_u64()) {
                    if n > 0 {
                        self.txns.push(n as u32);
                    }
                }
            }
        }
    }
    /// deliver everything held in one input call; the event lists the items (i.m = "batch")
    pub fn flush_held(&mut self) -> Option<Value> {
        if self.held.is_empty() { return None; }
        let held: Vec<(Value, Vec<u8>)> = self.held.drain(..).collect();
        if held.len() == 1 {
            let (d, b) = held.into_iter().next().unwrap();
            return Some(self.input_whole(d, &b));
        }
        let mut all: Vec<u8> = Vec::new();
        let mut items: Vec<Value> = Vec::new();
        for (d, b) in held { all.extend_from_slice(&b); items.push(d); }
        Some(self.input_whole(json!({"m":"batch","items":items}), &all))
    }

    pub fn input(&mut self, desc: Value, bytes: &[u8]) -> Value {
        if self.hold {
            let m = desc["m"].as_str().unwrap_or("").to_string();
            let malformed = (m == "setDataFrame" && desc["shape"] != "ok") || ((m == "closeStream" || m == "deleteStream") && desc["arg"] != "num")
                || (m == "onStatus" && desc["code"] == "malformed") || (m == "onMetaData" && desc["shape"] != "ok");
            if ["winack", "frag"].contains(&m.as_str()) || malformed {
                // needs ids the session hands out, announces a window or is malformed: delivered alone, after what is held
                if let Some(e) = self.flush_held() { self.pending.push(e); }
                return self.input_whole(desc, bytes);
            }
            self.held.push((desc, bytes.to_vec()));
            return Value::Null;
        }
        if let Some(x) = self.frag.take() {
            if bytes.len() >= 2 {
                let cut = 1 + (x % (bytes.len() as u64 - 1)) as usize;
                let first = self.input_whole(json!({"m":"frag"}), &bytes[..cut]);
                let ok = first["res"] == "ok";
                self.pending.push(first);
                if !ok {
                    return self.input_whole(json!({"m":"frag"}), &[]);
                }
                return self.input_whole(desc, &bytes[cut..]);
            }
        }
        self.input_whole(desc, bytes)
    }

    pub fn input_whole(&mut self, desc: Value, bytes: &[u8]) -> Value {
        if self.clock_mode == 0 { self.clock += 3; }
        rml_rtmp::verif::set_clock(Some(self.clock));
        let _ = rml_rtmp::verif::tap_drain();
        let r = catch_unwind(AssertUnwindSafe(|| self.s.handle_input(bytes)));
        match &r {
            Ok(Ok(rs)) => self.wire_record(rs, "handle_input"),
            _ => self.wire_record(&[], "handle_input"),
        }
        let (res, results) = match r {
            Ok(Ok(rs)) => ("ok".to_string(), results_json(&mut self.peer, &rs)),
            Ok(Err(e)) => (format!("err:{:?}", e), vec![]),
            Err(p) => (format!("panic:{}", panic_msg(p)), vec![]),
        };
        self.note(&results);
        json!({"ev":"In","i":desc,"n":bytes.len(),"res":res,"results":results,"probe":probe_json(&self.s),"clk":w(self.clock as u32)})
    }
    pub fn call(&mut self, desc: Value, f: &mut dyn FnMut(&mut ClientSession) -> Result<Vec<ClientSessionResult>, String>) -> Value {
        if self.clock_mode == 0 { self.clock += 3; }
        rml_rtmp::verif::set_clock(Some(self.clock));
        let _ = rml_rtmp::verif::tap_drain();
        let r = {
            let s = &mut self.s;
            catch_unwind(AssertUnwindSafe(|| f(s)))
        };
        let site = desc["m"].as_str().unwrap_or("call").to_string();
        match &r {
            Ok(Ok(rs)) => self.wire_record(rs, &site),
            _ => self.wire_record(&[], &site),
        }
        let (res, results) = match r {
            Ok(Ok(rs)) => ("ok".to_string(), results_json(&mut self.peer, &rs)),
            Ok(Err(e)) => (format!("err:{}", e), vec![]),
            Err(p) => (format!("panic:{}", panic_msg(p)), vec![]),
        };
        self.note(&results);
        json!({"ev":"Call","i":desc,"res":res,"results":results,"probe":probe_json(&self.s),"clk":w(self.clock as u32)})
    }
}

const APPS: [&str; 3] = ["live", "app/x", "\u{e9}"];
const KEYS: [&str; 8] = ["key1", "stream key", "k", "\u{fc}", "", "abcde", "sixsix", "a-long-stream-key-of-thirty-two-"];
const SIDS: [u32; 6] = [0, 1, 2, 5, 1000, 0x7FFFFFFF];

fn cmd(name: &str, txn: f64, obj: Amf0Value, args: Vec<Amf0Value>) -> RtmpMessage {
    RtmpMessage::Amf0Command { command_name: name.to_string(), transaction_id: txn, command_object: obj, additional_arguments: args }
}
fn s(x: &str) -> Amf0Value {
    Amf0Value::Utf8String(x.to_string())
}
fn status(code: &str) -> Amf0Value {
    let mut p = HashMap::new();
    p.insert("level".to_string(), s("status"));
    p.insert("code".to_string(), s(code));
    p.insert("description".to_string(), s("d"));
    Amf0Value::Object(p)
}
fn one(r: Result<ClientSessionResult, rml_rtmp::sessions::ClientSessionError>) -> Result<Vec<ClientSessionResult>, String> {
    r.map(|x| vec![x]).map_err(|e| format!("{:?}", e))
}

fn pick_txn(rng: &mut Rng, c: &Cli) -> u32 {
    if !c.txns.is_empty() && rng.chance(4, 5) { *rng.pick(&c.txns) } else { rng.range(1, 12) as u32 }
}
fn pick_sid(rng: &mut Rng, c: &Cli) -> u32 {
    if !c.sids.is_empty() && rng.chance(3, 4) { *rng.pick(&c.sids) } else { *rng.pick(&SIDS) }
}

pub fn random_step(rng: &mut Rng, c: &mut Cli, padlens: &[usize]) -> Value {
    let ts = *rng.pick(&[0u32, 1, 40, 0xFFFFFF, 0x1000000, 0x7FFFFFFF, 0x80000000, 0xFFFFFFFF]);
    match rng.below(100) {
        0..=7 => {
            let app = rng.pick(&APPS).to_string();
            c.call(json!({"m":"request_connection","app":app.as_bytes().to_vec()}), &mut |s| one(s.request_connection(app.clone())))
        }
        8..=15 => {
            let key = rng.pick(&KEYS).to_string();
            c.call(json!({"m":"request_playback","key":key.as_bytes().to_vec()}), &mut |s| one(s.request_playback(key.clone())))
        }
        16..=23 => {
            let key = rng.pick(&KEYS).to_string();
            let pt = *rng.pick(&["live", "record", "append"]);
            c.call(json!({"m":"request_publishing","key":key.as_bytes().to_vec(),"ptype":pt}), &mut |s| {
                let t = match pt { "live" => PublishRequestType::Live, "record" => PublishRequestType::Record, _ => PublishRequestType::Append };
                one(s.request_publishing(key.clone(), t))
            })
        }
        24..=27 => c.call(json!({"m":"stop_playback"}), &mut |s| s.stop_playback().map_err(|e| format!("{:?}", e))),
        28..=31 => c.call(json!({"m":"stop_publishing"}), &mut |s| s.stop_publishing().map_err(|e| format!("{:?}", e))),
        32..=39 => {
            let len = *rng.pick(padlens);
            let d = media_data(rng, len);
            let drop = rng.chance(1, 2);
            let audio = rng.chance(1, 2);
            let dd = Bytes::from(d.clone());
            c.call(json!({"m": if audio {"publish_audio"} else {"publish_video"},"ts":w(ts),"drop":drop,"data":segs(&d)}), &mut |s| {
                one(if audio { s.publish_audio_data(dd.clone(), RtmpTimestamp::new(ts), drop) } else { s.publish_video_data(dd.clone(), RtmpTimestamp::new(ts), drop) })
            })
        }
        40..=42 => {
            let meta = gen_meta(rng);
            c.call(json!({"m":"publish_metadata","meta":meta_json(&meta)}), &mut |s| one(s.publish_metadata(&meta)))
        }
        43..=44 => c.call(json!({"m":"send_ping"}), &mut |s| s.send_ping_request().map(|(p, _)| vec![ClientSessionResult::OutboundResponse(p)]).map_err(|e| format!("{:?}", e))),
        45..=62 => {
            let txn = pick_txn(rng, c);
            let is_result = rng.chance(3, 4);
            let sid = pick_sid(rng, c);
            let (args, hassid) = match rng.below(6) {
                0 => (vec![], false),
                1 => (vec![s("5")], false),
                2 => (vec![status("NetConnection.Connect.Success")], false),
                _ => (vec![Amf0Value::Number(sid as f64)], true),
            };
            if hassid && is_result {
                c.sids.push(sid);
            }
            let obj = if rng.chance(1, 2) { Amf0Value::Null } else { status("x") };
            // one answer in six carries an id that is NOT a transaction id of this session but turns into one under a careless
            // conversion (wrap modulo 2^32, truncation of a fraction, sign): it answers nothing and must be reported as unknown
            let (wire_id, valid) = if rng.chance(1, 6) {
                let t = txn as f64;
                (*rng.pick(&[t + 4294967296.0, t + 12884901888.0, t - 4294967296.0, t + 0.5, -t - 1.0, t + 1e15, f64::NAN, f64::INFINITY]), false)
            } else { (txn as f64, true) };
            let b = c.peer.encode(cmd(if is_result { "_result" } else { "_error" }, wire_id, obj, args), ts, 0);
            c.input(json!({"m": if is_result {"result"} else {"error"},"txn":txn,"txnint":valid,"hassid":hassid,"sid":sid,"wire":format!("{}", wire_id)}), &b)
        }
        63..=72 => {
            let (args, code) = match rng.below(9) {
                0 => (vec![], "malformed"),
                1 => (vec![s("NetStream.Play.Start")], "malformed"),
                2 => (vec![Amf0Value::Object(HashMap::new())], "malformed"),
                3 => { let mut p = HashMap::new(); p.insert("code".to_string(), Amf0Value::Number(1.0)); (vec![Amf0Value::Object(p)], "malformed") }
                4 => (vec![status("NetStream.Play.Reset")], "other"),
                5 | 6 => (vec![status("NetStream.Publish.Start")], "publish_start"),
                _ => (vec![status("NetStream.Play.Start")], "play_start"),
            };
            let b = c.peer.encode(cmd("onStatus", 0.0, Amf0Value::Null, args), ts, pick_sid(rng, c));
            c.input(json!({"m":"onStatus","code":code}), &b)
        }
        73..=82 => {
            let msid = pick_sid(rng, c);
            let len = *rng.pick(padlens);
            let d = media_data(rng, len);
            let (m, name) = if rng.chance(1, 2) { (RtmpMessage::AudioData { data: Bytes::from(d.clone()) }, "audio") } else { (RtmpMessage::VideoData { data: Bytes::from(d.clone()) }, "video") };
            let b = c.peer.encode(m, ts, msid);
            c.input(json!({"m":name,"msid":msid,"ts":w(ts),"data":segs(&d)}), &b)
        }
        83..=87 => {
            let msid = pick_sid(rng, c);
            let meta = gen_meta(rng);
            let (vals, shape) = match rng.below(6) {
                0 => (vec![s("onMetaData")], "noobj"),
                1 => (vec![s("onMetaData"), Amf0Value::Number(2.0)], "noobj"),
                2 => (vec![s("|RtmpSampleAccess"), Amf0Value::Boolean(false)], "other"),
                _ => (vec![s("onMetaData"), meta_object(&meta)], "ok"),
            };
            let b = c.peer.encode(RtmpMessage::Amf0Data { values: vals }, ts, msid);
            c.input(json!({"m":"onMetaData","msid":msid,"shape":shape,"meta":meta_json(&meta)}), &b)
        }
        88..=90 => {
            let req = rng.chance(2, 3);
            let m = RtmpMessage::UserControl { event_type: if req { UserControlEventType::PingRequest } else { UserControlEventType::PingResponse },
                                               stream_id: None, buffer_length: None, timestamp: Some(RtmpTimestamp::new(ts)) };
            let b = c.peer.encode(m, 0, 0);
            c.input(json!({"m": if req {"pingreq"} else {"pingresp"},"ts":w(ts)}), &b)
        }
        91..=92 => {
            let v = rng.u32();
            let b = c.peer.encode(RtmpMessage::Acknowledgement { sequence_number: v }, ts, 0);
            c.input(json!({"m":"ack","v":w(v)}), &b)
        }
        93..=95 => {
            let v = *rng.pick(&[1u32, 2, 3, 16, 17, 100, 4096, 1 << 20, 0x80000000, 0xFFFFFFFF]);
            let b = c.peer.encode(RtmpMessage::WindowAcknowledgement { size: v }, ts, 0);
            c.input(json!({"m":"winack","v":w(v)}), &b)
        }
        96..=97 => {
            let v = *rng.pick(&[1u32, 2, 128, 4096, 65536, 0x7FFFFFFF]);
            let b = c.peer.encode(RtmpMessage::SetChunkSize { size: v }, ts, 0);
            c.input(json!({"m":"setcs","v":v}), &b)
        }
        _ => {
            if rng.chance(1, 4) {
                let ty = *rng.pick(&[7u8, 16, 19, 22, 99, 255]);
                let b = c.peer.encode(RtmpMessage::Unknown { type_id: ty, data: Bytes::from(vec![1u8, 2, 3]) }, ts, 0);
                return c.input(json!({"m":"unknowntype","ty":ty}), &b);
            }
            let (m, name) = match rng.below(3) {
                0 => (cmd("onBWDone", 0.0, Amf0Value::Null, vec![Amf0Value::Number(8192.0)]), "unknowncmd"),
                1 => (RtmpMessage::UserControl { event_type: UserControlEventType::StreamBegin, stream_id: Some(1), buffer_length: None, timestamp: None }, "userctl"),
                _ => (RtmpMessage::Abort { stream_id: 3 }, "abort"),
            };
            let b = c.peer.encode(m, ts, 0);
            c.input(json!({"m":name}), &b)
        }
    }
}

/// happy path: connect, result, request play|publish, create result, start status
/// a publishing call at a point of the workflow where it may not be permitted yet (then it must be refused WITHOUT any effect -
/// in particular without touching the serializer's header memory, which the first permitted call would trip over)
fn early_publish(rng: &mut Rng, c: &mut Cli, t: &mut Trace) {
    if !rng.chance(1, 2) { return; }
    let n = rng.range(1, 2);
    for _ in 0..n {
        let d = media_data(rng, 5);
        let dd = Bytes::from(d.clone());
        let ts = 40 + rng.below(3) as u32;
        match rng.below(3) {
            0 => t.emit(&c.call(json!({"m":"publish_video","ts":w(ts),"drop":false,"data":segs(&d)}), &mut |s| one(s.publish_video_data(dd.clone(), RtmpTimestamp::new(ts), false)))),
            1 => t.emit(&c.call(json!({"m":"publish_audio","ts":w(ts),"drop":false,"data":segs(&d)}), &mut |s| one(s.publish_audio_data(dd.clone(), RtmpTimestamp::new(ts), false)))),
            _ => { let meta = gen_meta(rng); t.emit(&c.call(json!({"m":"publish_metadata","meta":meta_json(&meta)}), &mut |s| one(s.publish_metadata(&meta)))) }
        }
    }
}

pub fn warmup(rng: &mut Rng, c: &mut Cli, t: &mut Trace, depth: u64) {
    let app = rng.pick(&APPS).to_string();
    early_publish(rng, c, t);
    t.emit(&c.call(json!({"m":"request_connection","app":app.as_bytes().to_vec()}), &mut |s| one(s.request_connection(app.clone()))));
    early_publish(rng, c, t);
    if depth < 1 { return; }
    let txn = *c.txns.last().unwrap_or(&1);
    let b = c.peer.encode(cmd("_result", txn as f64, status("x"), vec![status("NetConnection.Connect.Success")]), 0, 0);
    t.emit(&c.input(json!({"m":"result","txn":txn,"txnint":true,"hassid":false,"sid":0}), &b));
    early_publish(rng, c, t);
    if depth < 2 { return; }
    let key = rng.pick(&KEYS).to_string();
    let publish = rng.chance(1, 2);
    if publish {
        t.emit(&c.call(json!({"m":"request_publishing","key":key.as_bytes().to_vec(),"ptype":"live"}), &mut |s| one(s.request_publishing(key.clone(), PublishRequestType::Live))));
    } else {
        t.emit(&c.call(json!({"m":"request_playback","key":key.as_bytes().to_vec()}), &mut |s| one(s.request_playback(key.clone()))));
    }
    early_publish(rng, c, t);
    if depth < 3 { return; }
    let txn = *c.txns.last().unwrap_or(&2);
    let sid = *rng.pick(&[1u32, 2, 5]);
    c.sids.push(sid);
    let b = c.peer.encode(cmd("_result", txn as f64, Amf0Value::Null, vec![Amf0Value::Number(sid as f64)]), 0, 0);
    t.emit(&c.input(json!({"m":"result","txn":txn,"txnint":true,"hassid":true,"sid":sid}), &b));
    early_publish(rng, c, t);
    if depth < 4 { return; }
    let code = if publish { "NetStream.Publish.Start" } else { "NetStream.Play.Start" };
    let b = c.peer.encode(cmd("onStatus", 0.0, Amf0Value::Null, vec![status(code)]), 0, sid);
    t.emit(&c.input(json!({"m":"onStatus","code": if publish {"publish_start"} else {"play_start"}}), &b));
    // the first permitted (or, while playing, still refused) publishing calls of each kind
    for k in 0..3u32 {
        let d = media_data(rng, 7);
        let dd = Bytes::from(d.clone());
        let ts = 90 + k;
        match k {
            0 => t.emit(&c.call(json!({"m":"publish_video","ts":w(ts),"drop":false,"data":segs(&d)}), &mut |s| one(s.publish_video_data(dd.clone(), RtmpTimestamp::new(ts), false)))),
            1 => t.emit(&c.call(json!({"m":"publish_audio","ts":w(ts),"drop":false,"data":segs(&d)}), &mut |s| one(s.publish_audio_data(dd.clone(), RtmpTimestamp::new(ts), false)))),
            _ => { let meta = gen_meta(rng); t.emit(&c.call(json!({"m":"publish_metadata","meta":meta_json(&meta)}), &mut |s| one(s.publish_metadata(&meta)))) }
        }
    }
}

pub fn gen_config(rng: &mut Rng) -> ClientSessionConfig {
    let mut c = ClientSessionConfig::new();
    c.chunk_size = *rng.pick(&[1u32, 2, 128, 4096, 4096, 65536, 0x7FFFFFFF]);
    c.window_ack_size = *rng.pick(&[1u32, 100, 1 << 20, 0xFFFFFFFF, 2_500_000]);
    c.tc_url = if rng.chance(1, 2) { Some("rtmp://host/app".to_string()) } else { None };
    c
}

pub fn generate(kind: &str, tier: &str, seed: u64, shard: u64, nshards: u64, path: &str) -> Value {
    quiet_panics();
    let mut t = Trace::create(path);
    let mut rng = Rng::new(seed ^ shard.wrapping_mul(0x7F4A7C15) ^ 404);
    let nruns = (if tier == "thorough" { 2400 } else { 400 }) / nshards as usize + 1;
    let mut steps = 0usize;
    let wired = kind == "wire";
    let mut wt = if wired { Some(Trace::create(&format!("{}.wire", path))) } else { None };
    let mut wc0 = 0usize;
    let mut packets = 0usize;
    let mut lost = 0usize;
    for r in 0..nruns {
        let cfg = gen_config(&mut rng);
        let small_cs = cfg.chunk_size < 128;
        let wl = wt.as_ref().map(|t| WireLog { run: crate::chunk::Run::new(t, "all", true), lost: 0, packets: 0 });
        let start = if wired { *rng.pick(&[0u64, (1 << 24) - 3, (1u64 << 32) - 4, 1000]) } else { *rng.pick(&[0u64, 5, 1000]) };
        let (mut c, ev) = Cli::new_wired(cfg, start, wl);
        c.clock_mode = if wired { 1 } else { 0 };
        t.emit(&ev);
        let padlens: Vec<usize> = if kind == "ack" { vec![0, 1, 2, 3, 5, 16, 17, 100, 4095, 4096, 4097] }
            else if wired && small_cs { vec![0, 1, 2, 5, 31, 64] } else { vec![0, 1, 5, 127, 128, 129, 4096, 5000] };
        warmup(&mut rng, &mut c, &mut t, (r % 6) as u64);
        if kind == "ack" {
            let v = *rng.pick(&[1u32, 2, 3, 16, 17, 18, 100, 4096, 4097, 1 << 20, 0x80000000, 0xFFFFFFFF]);
            let b = c.peer.encode(RtmpMessage::WindowAcknowledgement { size: v }, 0, 0);
            t.emit(&c.input(json!({"m":"winack","v":w(v)}), &b));
        }
        let n = rng.range(5, 40);
        let mut prev_probe = probe_json(&c.s);
        for _ in 0..n {
            c.tick(&mut rng);
            // one step in five is a BURST: the next two to four inbound messages are delivered by ONE input call (application
            // calls made meanwhile happen before it); otherwise every fourth input arrives in two calls, the first of which
            // completes no message
            let mut evs: Vec<Value> = Vec::new();
            if rng.chance(1, 5) {
                c.hold = true;
                c.frag = None;
                for _ in 0..rng.range(2, 4) {
                    let e = random_step(&mut rng, &mut c, &padlens);
                    evs.extend(c.pending.drain(..));
                    if !e.is_null() { evs.push(e); }
                }
                c.hold = false;
                if let Some(e) = c.flush_held() { evs.push(e); }
            } else {
                c.frag = if rng.chance(1, 4) { Some(rng.next()) } else { None };
                let e = random_step(&mut rng, &mut c, &padlens);
                c.frag = None;
                evs.extend(c.pending.drain(..));
                evs.push(e);
            }
            // a panic poisons the session; an Err from handle_input may have discarded packets that were already serialized
            // (finding K1, judged under C18), after which the peer decoder of this harness can no longer follow; a failing
            // fragment or burst leaves bytes behind in the session's deserializer: end the run in all these cases
            let mut dead = false;
            for e in evs {
                let res = e["res"].as_str().unwrap_or("").to_string();
                let is_in = e["ev"] == "In";
                let special = is_in && (e["i"]["m"] == "frag" || e["i"]["m"] == "batch");
                dead |= res.starts_with("panic") || (is_in && res.starts_with("err") && (special || lost_ack(&prev_probe, &e)));
                prev_probe = e["probe"].clone();
                t.emit(&e);
                steps += 1;
                if dead { break; }
            }
            if dead {
                break;
            }
        }
        if let (Some(wl), Some(w)) = (c.wire.take(), wt.as_mut()) {
            packets += wl.packets;
            lost += wl.lost;
            wl.run.finish(w, &mut wc0, false);
        }
    }
    t.flush();
    if let Some(w) = wt.as_mut() {
        w.flush();
    }
    json!({"kind":kind,"runs":nruns,"steps":steps,"lines":t.line,"path":path,"packets":packets,"lost":lost})
}
